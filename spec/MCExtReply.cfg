CONSTANTS MaxLines = 3
SPECIFICATION RSpec
INVARIANT ParserConforms
INVARIANT ExportReply
CHECK_DEADLOCK FALSE
