-------------------------------- MODULE Meta --------------------------------
(***************************************************************************)
(* C11: metamorphic relations between runs, and necessary conditions that  *)
(* TLC can evaluate on returned sets of frameworks with hundreds of        *)
(* arguments (where the families themselves cannot be enumerated).         *)
(* The relations are consequences of the definitions: MCDung checks them   *)
(* as theorems over all small frameworks (IsoInvariant, Product,           *)
(* StableCoincide, CredCOPR, Chain, SkepImpliesCred), so a violation       *)
(* observed on the implementation cannot be a false alarm.                 *)
(***************************************************************************)
EXTENDS Dung
(* linear-time versions of the characteristic function and of the set predicates; FastEqualsTextbook is checked by MCDung *)
AtkMap(af) == [a \in af.args |-> AttackersOf(af, a)]
FFast(af, atk, S) == LET ab == AttackedBy(af, S) IN {a \in af.args : atk[a] \subseteq ab}
CFFast(af, S) == AttackedBy(af, S) \cap S = {}
AdmissibleFast(af, atk, S) == CFFast(af, S) /\ S \subseteq FFast(af, atk, S)
CompleteFast(af, atk, S) == CFFast(af, S) /\ S = FFast(af, atk, S)
StableFast(af, S) == CFFast(af, S) /\ AttackedBy(af, S) = af.args \ S
FastEqualsTextbook(af) == LET atk == AtkMap(af) IN \A S \in SUBSET af.args :
    /\ FFast(af, atk, S) = F(af, S) /\ CFFast(af, S) = ConflictFree(af, S)
    /\ AdmissibleFast(af, atk, S) = Admissible(af, S) /\ CompleteFast(af, atk, S) = CompleteSet(af, S)
    /\ StableFast(af, S) = StableSet(af, S)

(* frameworks padded with sinks (arguments that attack nothing, inside the components): the complete / stable extensions are those  *)
(* of the core, extended deterministically (a sink is in iff it is defended / unattacked by the set); LiftTheorem is checked by MCDung *)
LiftCO(af, core, S) == S \cup {k \in af.args \ core : AttackersOf(af, k) \subseteq AttackedBy(af, S)}
LiftST(af, core, S) == S \cup {k \in af.args \ core : AttackersOf(af, k) \cap S = {}}
LiftedFam(af, core, sem) == LET c == RestrictAF(af, core) IN
  IF sem = "ST" THEN {LiftST(af, core, S) : S \in ST(c)} ELSE {LiftCO(af, core, S) : S \in CO(c)}

(* expected statuses of the transformed run, given those of the base run *)
Expected(rel, sem, kind, base) ==
  IF rel = "union_nost" /\ sem = "ST"
  THEN [i \in 1..Len(base) |-> IF kind = "DC" THEN "no" ELSE "yes"]       \* no stable extension any more
  ELSE base
=============================================================================
