-------------------------------- MODULE Meta --------------------------------
(***************************************************************************)
(* C11: metamorphic relations between runs, and necessary conditions that  *)
(* TLC can evaluate on returned sets of frameworks with hundreds of        *)
(* arguments (where the families themselves cannot be enumerated).         *)
(* The relations are consequences of the definitions: MCDung checks them   *)
(* as theorems over all small frameworks (IsoInvariant, Product,           *)
(* StableCoincide, CredCOPR, Chain, SkepImpliesCred), so a violation       *)
(* observed on the implementation cannot be a false alarm.                 *)
(***************************************************************************)
EXTENDS Dung
(* linear-time versions of the characteristic function and of the set predicates; FastEqualsTextbook is checked by MCDung *)
AtkMap(af) == [a \in af.args |-> AttackersOf(af, a)]
FFast(af, atk, S) == LET ab == AttackedBy(af, S) IN {a \in af.args : atk[a] \subseteq ab}
CFFast(af, S) == AttackedBy(af, S) \cap S = {}
AdmissibleFast(af, atk, S) == CFFast(af, S) /\ S \subseteq FFast(af, atk, S)
CompleteFast(af, atk, S) == CFFast(af, S) /\ S = FFast(af, atk, S)
StableFast(af, S) == CFFast(af, S) /\ AttackedBy(af, S) = af.args \ S
FastEqualsTextbook(af) == LET atk == AtkMap(af) IN \A S \in SUBSET af.args :
    /\ FFast(af, atk, S) = F(af, S) /\ CFFast(af, S) = ConflictFree(af, S)
    /\ AdmissibleFast(af, atk, S) = Admissible(af, S) /\ CompleteFast(af, atk, S) = CompleteSet(af, S)
    /\ StableFast(af, S) = StableSet(af, S)

(* ---- the grounded reduct ---- *)
(* G = grounded extension (least fixed point of F, iterated with the linear-time FFast), Gp = what it defeats.  The complete, preferred,  *)
(* stable, semi-stable, ideal (and grounded) extensions of a framework are exactly G \cup E' for E' an extension of the framework restricted *)
(* to the undecided arguments args \ (G \cup Gp): ReductTheorem of MCDung (all frameworks <= 4 arguments) and spec/proofs/ReductLemma.tla  *)
(* (TLAPS, any size; complete / stable / preferred / grounded).  Not for stage extensions (they need not contain G).  This lets the judges *)
(* work on frameworks of any size whose undecided part has small components.                                                              *)
RECURSIVE LfpFast(_, _, _)
LfpFast(af, atk, S) == LET T == FFast(af, atk, S) IN IF T = S THEN S ELSE LfpFast(af, atk, T)
GroundedFast(af) == LfpFast(af, AtkMap(af), {})
Undecided(af, G) == af.args \ (G \cup AttackedBy(af, G))
Reduct(af) == RestrictAF(af, Undecided(af, GroundedFast(af)))
ReductSems == {"GR", "CO", "PR", "ST", "SST", "ID"}
FamByReduct(af, sem) == LET G == GroundedFast(af) IN {G \cup E : E \in FamFast(RestrictAF(af, Undecided(af, G)), sem)}

(* frameworks padded with sinks (arguments that attack nothing, inside the components): the complete / stable extensions are those  *)
(* of the core, extended deterministically (a sink is in iff it is defended / unattacked by the set); LiftTheorem is checked by MCDung *)
LiftCO(af, core, S) == S \cup {k \in af.args \ core : AttackersOf(af, k) \subseteq AttackedBy(af, S)}
LiftST(af, core, S) == S \cup {k \in af.args \ core : AttackersOf(af, k) \cap S = {}}
LiftedFam(af, core, sem) == LET c == RestrictAF(af, core) IN
  IF sem = "ST" THEN {LiftST(af, core, S) : S \in ST(c)} ELSE {LiftCO(af, core, S) : S \in CO(c)}

(* expected statuses of the transformed run, given those of the base run *)
Expected(rel, sem, kind, base) ==
  IF rel = "union_nost" /\ sem = "ST"
  THEN [i \in 1..Len(base) |-> IF kind = "DC" THEN "no" ELSE "yes"]       \* no stable extension any more
  ELSE base
=============================================================================
