----------------------------- MODULE TraceEquiv -----------------------------
(* Judge of EquivalencyComputer runs (C19): classes sound w.r.t. CO(af) computed by TLC; mappings total and inverse *)
EXTENDS EquivAlgo, Meta, Json, IOUtils, SequencesExt
Rec == ndJsonDeserialize(IOEnv.TRACE)
VARIABLE l
Report(name, ok) == IF ok THEN TRUE ELSE PrintT(<<"T1", l, name>>)
Pairs(seq) == {<<p[1], p[2]>> : p \in ToSet(seq)}
(* soundness of the classes through the grounded reduct (frameworks of hundreds of arguments whose undecided part has small components): *)
(* the complete extensions are G plus one complete extension per component of the reduct, chosen independently (ReductTheorem, Product)   *)
SoundByReduct(af, classes) ==
  LET G == GroundedFast(af)
      D == AttackedBy(af, G)
      red == RestrictAF(af, af.args \ (G \cup D))
      comps == Components(red)
      fam == [c \in comps |-> FamFast(RestrictAF(af, c), "CO")]
      compOf(x) == CHOOSE c \in comps : x \in c
      Always(x) == x \in G \/ (x \in red.args /\ \A E \in fam[compOf(x)] : x \in E)
      Never(x) == x \in D \/ (x \in red.args /\ \A E \in fam[compOf(x)] : x \notin E)
  IN \A C \in classes : \A a \in C : \A b \in C :
        IF a \in red.args /\ b \in red.args /\ compOf(a) = compOf(b)
        THEN \A E \in fam[compOf(a)] : (a \in E) <=> (b \in E)
        ELSE (Always(a) /\ Always(b)) \/ (Never(a) /\ Never(b))
(* "in particular all arguments of the grounded extension together, and all arguments it defeats together" *)
GroundedTogether(af, classes) ==
  LET G == GroundedFast(af)
      D == AttackedBy(af, G)
  IN /\ (G # {} => \E C \in classes : G \subseteq C)
     /\ (D # {} => \E C \in classes : D \subseteq C)
Judge(e) ==
  LET af == [args |-> ToSet(e.args), att |-> Pairs(e.att)]
      classes == {ToSet(c) : c \in ToSet(e.classes)}
      toRed == Pairs(e.to_reduced)                       \* <<argument, index of its reduced argument>>
      big == "big" \in DOMAIN e
  IN
  /\ Report("C19:returns", ~e.panic)
  /\ ~e.panic =>
       /\ Report("C19:grounded_and_defeated_arguments_together", GroundedTogether(af, classes))
       /\ Report("C19:merged_arguments_indistinguishable",
                 IF big THEN SoundByReduct(af, classes) ELSE
                 IF e.core_n > 0
                 THEN LET co == LiftedFam(af, 1..e.core_n, "CO") IN \A C \in classes : \A a \in C : \A b \in C : \A E \in co : (a \in E) <=> (b \in E)
                 ELSE SoundClasses(af, classes))
       /\ (af.args = 1..Cardinality(af.args) /\ e.core_n = 0 /\ ~big) => Report("T2:classes_equal_EquivAlgo", Classes(af) = classes)   \* translation validation, not a verdict
       /\ Report("C19:classes_partition_arguments", Partition(af, classes) /\ Len(e.classes) = Cardinality(classes) /\ e.rn = Len(e.classes))
       /\ Report("C19:mappings_total_and_inverse",
                 /\ {p[1] : p \in toRed} = af.args /\ Len(e.to_reduced) = Cardinality(af.args)
                 /\ \A p \in toRed : p[2] \in 1..Len(e.classes) /\ p[1] \in ToSet(e.classes[p[2]])
                 /\ \A k \in 1..Len(e.classes) : \A a \in ToSet(e.classes[k]) : <<a, k>> \in toRed)
Init == l = 1
Next == /\ l <= Len(Rec) /\ l' = l + 1
        /\ LET e == Rec[l] IN
           IF e.ev = "equiv" THEN Judge(e)
           ELSE IF e.ev = "equivbig"
                THEN /\ Report("C19:returns", e.res = "ok")
                     /\ e.res = "ok" => /\ Report("C19:classes_partition_arguments", e.partition_ok)
                                         /\ Report("C19:mappings_total_and_inverse", e.inverse_ok /\ e.total_ok)
                ELSE TRUE
Spec == Init /\ [][Next]_l
Consumed == TLCGet("stats").diameter - 1 = Len(Rec) \/ PrintT(<<"UNCONSUMED", TLCGet("stats").diameter, Len(Rec)>>)
=============================================================================
