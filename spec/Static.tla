------------------------------- MODULE Static -------------------------------
(***************************************************************************)
(* S2: the second-level search procedures of the static solvers over a SAT *)
(* oracle, one action per step of the code:                                *)
(*   MaximalExtensionComputer  Init -> Intermediate* -> Maximal ->         *)
(*                             (JustDiscarded -> new search | None)        *)
(*   new_for_preferred_semantics      subset-blocking clauses              *)
(*   PreferredSemanticsSolver         compute_one_extension, skeptical     *)
(*                                    acceptance with / without shortcut   *)
(*   IdealSemanticsSolver             enumerate preferred extensions and   *)
(*                                    intersect, early exit, single        *)
(*                                    preferred shortcut, maximal complete *)
(*                                    set inside the intersection          *)
(* on ONE connected component (composition over components is theorem      *)
(* Product of MCDung).  The SAT oracle is an operator: a solve step        *)
(* returns ANY model of the clauses under the assumptions -- TLC explores  *)
(* every choice -- or, with Faults, fails (the code's unwrap_model panic). *)
(* Blocking clauses are modelled by their meaning: clause                  *)
(* "not_in_ext \/ selector" under assumption ~selector excludes every      *)
(* model that is a subset of the blocked set.                              *)
(***************************************************************************)
EXTENDS Dung, TLC, Sequences, FiniteSets
CONSTANTS N, Modes, Bases, Faults
Args == 1..N
VARIABLES af, base, mode, A, st, cur, blocked, calls, returned, res, cert, aborted,
          phase, inAll, nPref, first
vars == <<af, base, mode, A, st, cur, blocked, calls, returned, res, cert, aborted, phase, inAll, nPref, first>>

NoRes == [k |-> "none", v |-> {}]
NoCert == [has |-> FALSE, v |-> {}]
SetRes(S) == [k |-> "set", v |-> S]
Stat(x) == [k |-> x, v |-> {}]
CertOf(S) == [has |-> TRUE, v |-> S]
BaseSets == BaseFam(af, base)
(* models of the encoding under assumptions "I included, X excluded" and the active blocking clauses *)
Models(I, X) == {S \in BaseSets : I \subseteq S /\ S \cap X = {} /\ \A B \in blocked : ~(S \subseteq B)}

Init ==
  /\ af \in {[args |-> Args, att |-> R] : R \in SUBSET (Args \X Args)}
  /\ base \in Bases /\ mode \in Modes
  /\ A \in IF mode \in {"DS", "DSshort"} THEN (SUBSET Args) \ {{}} ELSE {{}}
  /\ st = "Init" /\ cur = {} /\ blocked = {} /\ calls = 0 /\ returned = <<>>
  /\ res = NoRes /\ cert = NoCert /\ aborted = FALSE
  /\ phase = 1 /\ inAll = Args /\ nPref = 0 /\ first = TRUE

Running == res = NoRes /\ ~aborted

(* one call of the SAT solver: assumptions I (forced in), X (forced out); on SAT the computer moves to Intermediate *)
Solve(I, X, onUnsat) ==
  /\ calls' = calls + 1
  /\ \/ /\ Models(I, X) = {} /\ st' = onUnsat /\ UNCHANGED <<cur, returned>>
     \/ \E S \in Models(I, X) : cur' = S /\ st' = "Inter" /\ returned' = Append(returned, S)

Fail == Faults /\ Running /\ st \in {"Inter", "Maximal", "Discarded"} /\ aborted' = TRUE
        /\ UNCHANGED <<af, base, mode, A, st, cur, blocked, calls, returned, res, cert, phase, inAll, nPref, first>>

(* MaximalExtensionComputer::compute_grounded *)
Ground == /\ Running /\ st = "Init" /\ cur' = Grounded(af) /\ st' = "Inter"
          /\ UNCHANGED <<af, base, mode, A, blocked, calls, returned, res, cert, aborted, phase, inAll, nPref, first>>

Forbidden == IF mode = "ID" /\ phase = 2 THEN Args \ inAll ELSE {}

(* increase_current: block the subsets of the current set, ask for a superset *)
Increase == /\ Running /\ st = "Inter"
            /\ blocked' = blocked \cup {cur}
            /\ LET B2 == blocked \cup {cur}
                   ms == {S \in BaseSets : cur \subseteq S /\ S \cap Forbidden = {} /\ \A B \in B2 : ~(S \subseteq B)}
               IN /\ calls' = calls + 1
                  /\ \/ /\ ms = {} /\ st' = "Maximal" /\ UNCHANGED <<cur, returned>>
                     \/ \E S \in ms : cur' = S /\ st' = "Inter" /\ returned' = Append(returned, S)
            /\ UNCHANGED <<af, base, mode, A, res, cert, aborted, phase, inAll, nPref, first>>

(* discard_current_search (no SAT call) *)
Discard == /\ blocked' = blocked \cup {cur} /\ st' = "Discarded"
           /\ UNCHANGED <<af, base, mode, A, cur, calls, returned, res, cert, aborted, phase, inAll, nPref, first>>

(* new_search, also the second half of discard_maximal_and_new_search *)
NewSearch(extraBlocked) ==
  /\ blocked' = blocked \cup extraBlocked
  /\ LET B2 == blocked \cup extraBlocked
         ms == {S \in BaseSets : \A B \in B2 : ~(S \subseteq B)}
     IN /\ calls' = calls + 1
        /\ \/ /\ ms = {} /\ st' = "None" /\ UNCHANGED <<cur, returned>>
           \/ \E S \in ms : cur' = S /\ st' = "Inter" /\ returned' = Append(returned, S)

AttackedByCur(a) == a \in AttackedBy(af, cur)

(* ---- PreferredSemanticsSolver::compute_one_extension (compute_maximal) ---- *)
SE_Step ==
  /\ mode = "SE" /\ Running
  /\ \/ Ground
     \/ Increase
     \/ /\ st = "Maximal" /\ res' = SetRes(cur)
        /\ UNCHANGED <<af, base, mode, A, st, cur, blocked, calls, returned, cert, aborted, phase, inAll, nPref, first>>

(* ---- is_skeptically_accepted_in_cc ---- *)
DS_Step ==
  /\ mode \in {"DS", "DSshort"} /\ Running
  /\ \/ Ground
     \/ /\ st = "Inter" /\ cur \cap A # {} /\ Discard
     \/ /\ st = "Inter" /\ cur \cap A = {} /\ mode = "DSshort" /\ (\A a \in A : AttackedByCur(a))
        /\ res' = Stat("no") /\ cert' = CertOf(cur)          \* shortcut: an admissible set attacking every queried argument
        /\ UNCHANGED <<af, base, mode, A, st, cur, blocked, calls, returned, aborted, phase, inAll, nPref, first>>
     \/ /\ st = "Inter" /\ cur \cap A = {} /\ ~(mode = "DSshort" /\ (\A a \in A : AttackedByCur(a))) /\ Increase
     \/ /\ st = "Maximal" /\ cur \cap A = {} /\ res' = Stat("no") /\ cert' = CertOf(cur)
        /\ UNCHANGED <<af, base, mode, A, st, cur, blocked, calls, returned, aborted, phase, inAll, nPref, first>>
     \/ /\ st = "Maximal" /\ cur \cap A # {} /\ NewSearch({cur})
        /\ UNCHANGED <<af, base, mode, A, res, cert, aborted, phase, inAll, nPref, first>>
     \/ /\ st = "Discarded" /\ NewSearch({})
        /\ UNCHANGED <<af, base, mode, A, res, cert, aborted, phase, inAll, nPref, first>>
     \/ /\ st = "None" /\ res' = Stat("yes")
        /\ UNCHANGED <<af, base, mode, A, st, cur, blocked, calls, returned, cert, aborted, phase, inAll, nPref, first>>

(* ---- IdealSemanticsSolver::compute_one_extension_for_cc ---- *)
G == Grounded(af)
(* callback of enumerate_extensions on a maximal set: intersect; stop when the intersection is down to the grounded extension *)
ID_Step ==
  /\ mode = "ID" /\ Running
  /\ \/ Ground
     \/ /\ st = "Inter" /\ Increase
     \/ /\ phase = 1 /\ st = "Maximal"
        /\ LET ia == inAll \cap cur IN
           IF Cardinality(ia) = Cardinality(G)
           THEN /\ res' = SetRes(G) /\ UNCHANGED <<st, cur, blocked, calls, returned, phase>> /\ inAll' = ia /\ nPref' = nPref + 1
           ELSE /\ inAll' = ia /\ nPref' = nPref + 1 /\ NewSearch({cur}) /\ UNCHANGED <<res, phase>>
        /\ UNCHANGED <<af, base, mode, A, cert, aborted, first>>
     \/ /\ phase = 1 /\ st = "None"          \* enumeration exhausted
        /\ IF Cardinality(inAll) = Cardinality(G) THEN res' = SetRes(G) /\ UNCHANGED <<phase, st, cur, blocked>>
           ELSE IF nPref = 1 THEN res' = SetRes(inAll) /\ UNCHANGED <<phase, st, cur, blocked>>
           ELSE \* compute_maximal_with_allowed: a new computer (new selector: the old blocking clauses are disabled)
                /\ phase' = 2 /\ st' = "Inter" /\ cur' = G /\ blocked' = {} /\ UNCHANGED res
        /\ UNCHANGED <<af, base, mode, A, calls, returned, cert, aborted, inAll, nPref, first>>
     \/ /\ phase = 2 /\ st = "Maximal" /\ res' = SetRes(cur)
        /\ UNCHANGED <<af, base, mode, A, st, cur, blocked, calls, returned, cert, aborted, phase, inAll, nPref, first>>

Next == SE_Step \/ DS_Step \/ ID_Step \/ Fail
Spec == Init /\ [][Next]_vars /\ WF_vars(SE_Step \/ DS_Step \/ ID_Step)

(* ------------------------------- properties ------------------------------- *)
Done == res # NoRes
Correct ==
  Done =>
    CASE mode = "SE" -> res.k = "set" /\ res.v \in PR(af)                     \* C01
      [] mode \in {"DS", "DSshort"} ->
            /\ res.k \in {"yes", "no"} /\ (res.k = "yes") = SkepIn(PR(af), A)    \* C03 / C07
            /\ (res.k = "no" /\ mode = "DS") => cert.has /\ cert.v \in PR(af) /\ cert.v \cap A = {}   \* C04
            /\ (res.k = "yes") => ~cert.has
      [] mode = "ID" -> res = SetRes(Ideal(af))                                 \* C01 (ID)
FaultNeverAnswers == aborted => res = NoRes /\ cert = NoCert                        \* C17
CallBound ==                                                                     \* C18
  calls <= (IF mode = "ID" THEN 2 * Cardinality(BaseSets) + Cardinality(PR(af)) + 2
            ELSE Cardinality(BaseSets) + Cardinality(PR(af)) + 1)
NoRepeat == mode # "ID" => \A i, j \in 1..Len(returned) : i # j => returned[i] # returned[j]
Terminates == <>(Done \/ aborted)                                                \* C18
=============================================================================
