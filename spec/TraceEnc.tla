------------------------------ MODULE TraceEnc ------------------------------
(***************************************************************************)
(* Judge of the clause sets the real encoders hand to SatSolver::add_clause *)
(* (C10).  Each event carries the clauses, the public layout (arg_to_lit,  *)
(* first_range_var) and the projections of ALL models of the clauses       *)
(* (enumerated by the harness with CaDiCaL).  TLC compares them with the   *)
(* intended family of Dung.tla; for small instances it re-derives the      *)
(* models from the logged clauses by brute force (validation of the        *)
(* enumerator, "T2:" = tool problem, not a verdict) and compares the       *)
(* clause set with Enc.tla's own output (translation validation, "T2:").   *)
(***************************************************************************)
EXTENDS Enc, Meta, TLC, Json, IOUtils
Rec == ndJsonDeserialize(IOEnv.TRACE)
CONSTANT BruteMaxVars
VARIABLES l, af
Report(name, ok) == IF ok THEN TRUE ELSE PrintT(<<"T1", l, name>>)
Pairs(seq) == {<<p[1], p[2]>> : p \in ToSet(seq)}

JudgeEnc(e) ==
  LET sets == {ToSet(m[1]) : m \in ToSet(e.models)}
      \* padded frameworks (core + sinks): the intended family is lifted from the core (theorem LiftTheorem of MCDung)
      intended == IF e.core_n > 0 THEN LiftedFam(af, 1..e.core_n, IF e.encoder = "stable" THEN "ST" ELSE "CO") ELSE Intended(af, e.encoder)
      args == SetToSortSeq(af.args, <)
      cls == {ToSet(c) : c \in ToSet(e.clauses)}
  IN
  \* e.cut: the harness stopped enumerating after 200 000 total models (free auxiliary variables of the conflict-free encodings on 12+ arguments):
  \* a limit of the test bench, not a verdict -- such events are not judged further (counted by the driver)
  /\ Report("C10:encodes", ~e.panic)
  /\ (~e.panic /\ ~e.cut) =>
       /\ Report("C10:models_are_exactly_intended", sets = intended)
       \* huge frameworks: every isolated argument is true in every model (observed by the harness; product theorem for the rest)
       /\ ("fillers_ok" \in DOMAIN e) => Report("C10:isolated_arguments_in_every_model", e.fillers_ok)
       /\ Report("C10:distinct_literals", /\ Cardinality(ToSet(e.argvar)) = Len(e.argvar)
                                          /\ \A v \in ToSet(e.argvar) : v > 0
                                          /\ ToSet(e.argvar) \cap ToSet(e.rangevar) = {}
                                          /\ Cardinality(ToSet(e.rangevar)) = Len(e.rangevar))
       /\ e.range =>
            /\ Report("C10:range_var_only_in_range", \A m \in ToSet(e.models) : ToSet(m[2]) \subseteq RangeOf(af, ToSet(m[1])))
            /\ Report("C10:range_reachable", \A S \in intended : \E m \in ToSet(e.models) : ToSet(m[1]) = S /\ ToSet(m[2]) = RangeOf(af, S))
       /\ (e.with_clauses /\ e.nvars <= BruteMaxVars /\ e.nvars >= 1) =>
            LET ms == ModelsOf(cls, e.nvars)
                proj == {<<{args[i] : i \in {j \in 1..Len(args) : m[e.argvar[j]]}},
                           {args[i] : i \in {j \in 1..Len(e.rangevar) : m[e.rangevar[j]]}}>> : m \in ms}
            IN Report("T2:enumerator_agrees_with_brute_force", proj = {<<ToSet(m[1]), ToSet(m[2])>> : m \in ToSet(e.models)})
       /\ e.with_clauses => Report("T2:clauses_equal_spec", cls = Encode(af, e.encoder, e.range))

Init == l = 1 /\ af = EmptyAF
Next ==
  /\ l <= Len(Rec)
  /\ l' = l + 1
  /\ LET e == Rec[l] IN
     IF e.ev = "af" THEN af' = [args |-> ToSet(e.args), att |-> Pairs(e.att)]
     ELSE af' = af /\ (IF e.ev = "enc" THEN JudgeEnc(e) ELSE TRUE)
Spec == Init /\ [][Next]_<<l, af>>
Consumed == TLCGet("stats").diameter - 1 = Len(Rec) \/ PrintT(<<"UNCONSUMED", TLCGet("stats").diameter, Len(Rec)>>)
=============================================================================
