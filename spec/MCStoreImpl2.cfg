CONSTANTS Labels = {1, 2}
  MaxIds = 4
  MaxAttVec = 5
SPECIFICATION Spec
CHECK_DEADLOCK FALSE
CONSTRAINT Bound
INVARIANT Refines
INVARIANT Observed
INVARIANT AbsWellFormed
