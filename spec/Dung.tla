------------------------------- MODULE Dung -------------------------------
(***************************************************************************)
(* Textbook (Dung 1995 / ICCMA'23) definitions of abstract argumentation   *)
(* semantics.  This module is the single oracle of the whole framework:    *)
(* every "as the semantics dictate" in properties C01-C19 is evaluated by  *)
(* TLC through these operators, on the model and on recorded executions of *)
(* the real code.                                                          *)
(*                                                                         *)
(* A framework is a record [args |-> set, att |-> set of pairs <<a,b>>].   *)
(***************************************************************************)
EXTENDS Naturals, FiniteSets, Sequences

Sems == {"GR", "CO", "PR", "ST", "SST", "STG", "ID"}

EmptyAF == [args |-> {}, att |-> {}]

AttackersOf(af, a) == {p[1] : p \in {q \in af.att : q[2] = a}}
AttackedBy(af, S)  == {p[2] : p \in {q \in af.att : q[1] \in S}}
RangeOf(af, S)       == S \cup AttackedBy(af, S)

ConflictFree(af, S) == \A p \in af.att : ~(p[1] \in S /\ p[2] \in S)

(* a is defended by S: every attacker of a is attacked by S *)
Defends(af, S, a) == \A b \in AttackersOf(af, a) : \E p \in af.att : p[1] \in S /\ p[2] = b

(* characteristic function *)
F(af, S) == {a \in af.args : Defends(af, S, a)}

Admissible(af, S)  == ConflictFree(af, S) /\ S \subseteq F(af, S)
CompleteSet(af, S) == ConflictFree(af, S) /\ S = F(af, S)
StableSet(af, S)   == ConflictFree(af, S) /\ AttackedBy(af, S) = af.args \ S

(* families; computed by successive filtering so that TLC stays fast up to ~14 arguments *)
CF(af)  == {S \in SUBSET af.args : ConflictFree(af, S)}
ADM(af) == {S \in CF(af) : S \subseteq F(af, S)}
CO(af)  == {S \in ADM(af) : F(af, S) \subseteq S}
ST(af)  == {S \in CF(af) : AttackedBy(af, S) = af.args \ S}

MaxSubset(Fm) == {S \in Fm : \A T \in Fm : S \subseteq T => S = T}
MaxRange(af, Fm) == {S \in Fm : \A T \in Fm : RangeOf(af, S) \subseteq RangeOf(af, T) => RangeOf(af, S) = RangeOf(af, T)}

PR(af)  == MaxSubset(ADM(af))
SST(af) == MaxRange(af, CO(af))
STG(af) == MaxRange(af, CF(af))

RECURSIVE LfpFrom(_, _)
LfpFrom(af, S) == LET T == F(af, S) IN IF T = S THEN S ELSE LfpFrom(af, T)
Grounded(af) == LfpFrom(af, {})
GR(af) == {Grounded(af)}

RECURSIVE InterAll(_, _)
InterAll(Fm, U) == IF Fm = {} THEN U ELSE LET S == CHOOSE S \in Fm : TRUE IN InterAll(Fm \ {S}, U \cap S)

(* The ideal extension: the (unique) subset-maximal admissible set contained in every preferred extension *)
Ideal(af) == LET adm == ADM(af)
                 I   == InterAll(MaxSubset(adm), af.args)
                 C   == {S \in adm : S \subseteq I}
             IN CHOOSE S \in C : \A T \in C : T \subseteq S
ID(af) == {Ideal(af)}

Fam(af, sem) ==
  CASE sem = "GR"  -> GR(af)
    [] sem = "CO"  -> CO(af)
    [] sem = "PR"  -> PR(af)
    [] sem = "ST"  -> ST(af)
    [] sem = "SST" -> SST(af)
    [] sem = "STG" -> STG(af)
    [] sem = "ID"  -> ID(af)

(* Equivalent but cheaper characterisations, used by the trace judges on larger components.  Their equality   *)
(* with the textbook definitions above is invariant FastEqual of MCDung (all frameworks <= N arguments).       *)
PRc(af) == MaxSubset(CO(af))
IdealC(af) == LET co == CO(af)
                  I  == InterAll(MaxSubset(co), af.args)
                  C  == {S \in ADM(af) : S \subseteq I}
              IN CHOOSE S \in C : \A T \in C : T \subseteq S
FamFast(af, sem) ==
  CASE sem = "PR" -> PRc(af)
    [] sem = "ID" -> {IdealC(af)}
    [] OTHER -> Fam(af, sem)

(* acceptance of a SET of arguments, read as a disjunction (C07) *)
CredIn(Fm, A) == \E E \in Fm : E \cap A # {}
SkepIn(Fm, A) == \A E \in Fm : E \cap A # {}
Cred(af, sem, A) == CredIn(Fam(af, sem), A)
Skep(af, sem, A) == SkepIn(Fam(af, sem), A)

(* weakly connected components *)
Neigh(af, S) == S \cup AttackedBy(af, S) \cup {p[1] : p \in {q \in af.att : q[2] \in S}}
RECURSIVE Closure(_, _)
Closure(af, S) == LET T == Neigh(af, S) IN IF T = S THEN S ELSE Closure(af, T)
ComponentOf(af, a) == Closure(af, {a})
Components(af) == {ComponentOf(af, a) : a \in af.args}

RestrictAF(af, X) == [args |-> af.args \cap X, att |-> {p \in af.att : p[1] \in X /\ p[2] \in X}]
Rename(af, pi)  == [args |-> {pi[a] : a \in af.args}, att |-> {<<pi[p[1]], pi[p[2]]>> : p \in af.att}]
UnionAF(a1, a2) == [args |-> a1.args \cup a2.args, att |-> a1.att \cup a2.att]

(* the family of a semantics over a framework is the "product" of the families of its components *)
RECURSIVE ProductFam(_, _, _)
ProductFam(af, comps, sem) ==
  IF comps = {} THEN {{}}
  ELSE LET c == CHOOSE c \in comps : TRUE
           rest == ProductFam(af, comps \ {c}, sem)
       IN {S \cup T : S \in Fam(RestrictAF(af, c), sem), T \in rest}

(* base family used by the second-level procedures (C18) *)
BaseFam(af, base) ==
  CASE base = "CF"  -> CF(af)
    [] base = "ADM" -> ADM(af)
    [] base = "CO"  -> CO(af)
=============================================================================
