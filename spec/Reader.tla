------------------------------- MODULE Reader -------------------------------
(***************************************************************************)
(* S7: the two instance readers as machines over LINE KINDS (C13).         *)
(* An abstract file is a sequence of line kinds; the concrete text of each *)
(* kind (over 3 arguments) is fixed in harness/src/io.rs.  For every       *)
(* abstract file the specification gives the verdict the PROPERTY assigns: *)
(*   <<"accept", args, att>>  well-formed: must be read as exactly this    *)
(*   <<"reject">>             ill-formed in one of the listed ways         *)
(*   <<"unspecified">>        the property is silent (only totality)       *)
(* IccmaRun / ApxRun are the readers' own line-driven state machines       *)
(* (header seen / blank seen; arguments before attacks); MCReader checks   *)
(* them against the verdicts and exports every file for replay.            *)
(***************************************************************************)
EXTENDS Naturals, Sequences, FiniteSets, TLC

(* ---------------- ICCMA'23 ---------------- *)
(* cmt "# text"   empty ""   ws "  "   hdr "p af 3"   hdr0 "p af 0"                                      *)
(* hdrKind "p cnf 3"   hdrP "q af 3"   hdrNum "p af x"   hdrNeg "p af -1"   hdrShort "p af"              *)
(* a12 "1 2"   a23 "2 3"   a33 "3 3"   aOOR "1 4"   aZero "0 1"   aOne "1"   aThree "1 2 3"   aNaN "a b" *)
(* cmtBin "# g\xe9n\xe9r\xe9" (a comment holding bytes that are not UTF-8)   aBin "1 \xff2" (such bytes in an attack line)                  *)
IccmaKinds == {"cmt", "empty", "ws", "hdr", "hdr0", "hdrKind", "hdrP", "hdrNum", "hdrNeg", "hdrShort",
               "a12", "a23", "a33", "aOOR", "aZero", "aOne", "aThree", "aNaN", "cmtBin", "aBin", "aWrap64", "aWrap32"}
GoodHdr == {"hdr", "hdr0"}
BadHdr  == {"hdrKind", "hdrP", "hdrNum", "hdrNeg", "hdrShort"}
GoodAtt == {"a12", "a23", "a33"}
(* aWrap64 "18446744073709551618 3" (2^64 + 2)   aWrap32 "1 4294967298" (2^32 + 2): out of range, whatever they are congruent to *)
BadAtt  == {"aOOR", "aZero", "aOne", "aThree", "aNaN", "aBin", "aWrap64", "aWrap32"}
AttOf(k) == CASE k = "a12" -> <<1, 2>> [] k = "a23" -> <<2, 3>> [] k = "a33" -> <<3, 3>>
Content(k) == k \notin {"cmt", "empty", "cmtBin"}

IccmaVerdict(ls) ==
  LET idx == {i \in 1..Len(ls) : Content(ls[i])}
      hasWs == \E i \in 1..Len(ls) : ls[i] = "ws"
      first == IF idx = {} THEN 0 ELSE CHOOSE i \in idx : \A j \in idx : i <= j
      blanks == {i \in 1..Len(ls) : ls[i] = "empty"}
      contentAfterBlank == \E b \in blanks : \E i \in idx : i > b
      n == IF first # 0 /\ ls[first] = "hdr" THEN 3 ELSE 0
      \* a comment that is not valid UTF-8: whether such a file is well-formed is not for the property to say, but it must not be read as
      \* SOME OTHER framework -- either it is rejected or it is read as exactly what it declares
      soften(v) == IF v[1] = "accept" /\ \E i \in 1..Len(ls) : ls[i] = "cmtBin" THEN <<"accept_or_reject", v[2], v[3]>> ELSE v
  IN soften(
     IF hasWs THEN <<"unspecified">>
     ELSE IF first = 0 THEN <<"reject">>                                           \* missing header
     ELSE IF ls[first] \notin GoodHdr THEN <<"reject">>                          \* bad or missing header
     ELSE IF contentAfterBlank THEN <<"reject">>                                  \* content after a blank line
     ELSE IF \E i \in idx : i > first /\ ls[i] \notin GoodAtt THEN <<"reject">>   \* wrong arity, not an index, second header
     ELSE IF n = 0 /\ \E i \in idx : i > first THEN <<"reject">>                   \* index out of range (no argument at all)
     ELSE <<"accept", 1..n, {AttOf(ls[i]) : i \in {j \in idx : j > first}}>>)

(* the reader's own state machine: (af seen?, blank seen?, attacks) *)
RECURSIVE IccmaRunFrom(_, _, _, _, _)
IccmaRunFrom(ls, hdrSeen, n, blank, att) ==
  IF ls = <<>> THEN (IF hdrSeen THEN <<"accept", 1..n, att>> ELSE <<"reject">>)
  ELSE LET k == Head(ls) IN
       IF k = "cmtBin" THEN <<"reject">>                         \* the line cannot be decoded: the read fails
       ELSE IF k = "cmt" THEN IccmaRunFrom(Tail(ls), hdrSeen, n, blank, att)
       ELSE IF k = "empty" THEN IccmaRunFrom(Tail(ls), hdrSeen, n, TRUE, att)
       ELSE IF blank THEN <<"reject">>
       ELSE IF ~hdrSeen THEN (IF k \in GoodHdr THEN IccmaRunFrom(Tail(ls), TRUE, IF k = "hdr" THEN 3 ELSE 0, blank, att) ELSE <<"reject">>)
       ELSE IF k \in GoodAtt /\ n = 3 THEN IccmaRunFrom(Tail(ls), hdrSeen, n, blank, att \cup {AttOf(k)})
       ELSE <<"reject">>
IccmaRun(ls) == IccmaRunFrom(ls, FALSE, 0, FALSE, {})

(* ---------------- Aspartix ---------------- *)
(* argA "arg(a)."  argB "arg(b)."  argC "arg(c)."  argSp "arg( a )."  argBad "arg(1a)."                      *)
(* attAB "att(a,b)."  attBC "att(b,c)."  attCC "att(c,c)."  attSp "att( a , b )."  attUnd "att(a,z)."        *)
(* attOne "att(a)."  attThree "att(a,b,c)."  attBad "att(a,1b)."  junk "hello."  nodot "arg(a)"  empty  ws   *)
ApxKinds == {"argA", "argB", "argC", "argSp", "argBad", "attAB", "attBC", "attCC", "attSp", "attUnd",
             "attOne", "attThree", "attBad", "junk", "nodot", "empty", "ws"}
ArgOf(k) == CASE k \in {"argA", "argSp"} -> 1 [] k = "argB" -> 2 [] k = "argC" -> 3
ApxAttOf(k) == CASE k \in {"attAB", "attSp"} -> <<1, 2>> [] k = "attBC" -> <<2, 3>> [] k = "attCC" -> <<3, 3>>
IsArg(k) == k \in {"argA", "argB", "argC", "argSp"}
IsAtt(k) == k \in {"attAB", "attBC", "attCC", "attSp"}
Blank(k) == k \in {"empty", "ws"}

RECURSIVE Dedup(_, _)
Dedup(seq, seen) == IF seq = <<>> THEN <<>>
                    ELSE IF Head(seq) \in seen THEN Dedup(Tail(seq), seen)
                    ELSE <<Head(seq)>> \o Dedup(Tail(seq), seen \cup {Head(seq)})

ApxVerdict(ls) ==
  LET idx == {i \in 1..Len(ls) : ~Blank(ls[i])}
      args == Dedup([i \in 1..Len(ls) |-> IF IsArg(ls[i]) THEN ArgOf(ls[i]) ELSE 0], {0})
      declaredBefore(i, a) == \E j \in 1..(i - 1) : IsArg(ls[j]) /\ ArgOf(ls[j]) = a
      atts == {i \in idx : IsAtt(ls[i])}
      argAfterAtt == \E i \in idx : IsArg(ls[i]) /\ \E j \in atts : j < i
      undeclared == (\E i \in idx : ls[i] = "attUnd")
                      \/ \E i \in atts : ~declaredBefore(i, ApxAttOf(ls[i])[1]) \/ ~declaredBefore(i, ApxAttOf(ls[i])[2])
      arity == \E i \in idx : ls[i] \in {"attOne", "attThree"}
      other == \E i \in idx : ls[i] \in {"argBad", "attBad", "junk", "nodot"}
  IN IF other THEN <<"unspecified">>               \* malformed in a way the property does not list (how such a line is
                                                     \* read, e.g. whether it declares an argument, is not fixed): only totality
     ELSE IF argAfterAtt \/ undeclared \/ arity THEN <<"reject">>
     ELSE <<"accept", args, {ApxAttOf(ls[i]) : i \in atts}>>

RECURSIVE ApxRunFrom(_, _, _, _)
ApxRunFrom(ls, args, attSeen, att) ==
  IF ls = <<>> THEN <<"accept", args, att>>
  ELSE LET k == Head(ls) IN
       IF Blank(k) THEN ApxRunFrom(Tail(ls), args, attSeen, att)
       ELSE IF IsArg(k) THEN (IF attSeen THEN <<"reject">>
                              ELSE ApxRunFrom(Tail(ls), IF \E i \in 1..Len(args) : args[i] = ArgOf(k) THEN args ELSE Append(args, ArgOf(k)), attSeen, att))
       ELSE IF IsAtt(k) THEN LET p == ApxAttOf(k) IN
                             IF (\E i \in 1..Len(args) : args[i] = p[1]) /\ (\E i \in 1..Len(args) : args[i] = p[2])
                             THEN ApxRunFrom(Tail(ls), args, TRUE, att \cup {p}) ELSE <<"reject">>
       ELSE <<"reject">>
ApxRun(ls) == ApxRunFrom(ls, <<>>, FALSE, {})

Conforms(verdict, res) ==
  CASE verdict[1] = "accept" -> res = verdict
    [] verdict[1] = "reject" -> res[1] = "reject"
    [] verdict[1] = "accept_or_reject" -> res[1] = "reject" \/ res = <<"accept", verdict[2], verdict[3]>>
    [] OTHER -> TRUE

(* query-argument lookup *)
(* ICCMA: "1" "3" valid; "0" "4" "-1" "x" "" invalid (3 arguments) *)
IccmaArgVerdict(k) == CASE k = "one" -> <<"ok", 0>> [] k = "three" -> <<"ok", 2>> [] OTHER -> <<"err">>
=============================================================================
