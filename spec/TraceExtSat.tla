---------------------------- MODULE TraceExtSat ----------------------------
(***************************************************************************)
(* Judge of the events recorded at the process boundary (C16):             *)
(*   dimacs : what the external program received (logged by fakesat)       *)
(*   reply  : an abstract reply (exported by MCExtReply), concretised, fed *)
(*            to the real parser through a process; verdict = Classify     *)
(*   volume : one real call with a reply of a given volume / split / order *)
(***************************************************************************)
EXTENDS ExtReply, Json, IOUtils, SequencesExt
Rec == ndJsonDeserialize(IOEnv.TRACE)
VARIABLE l
Report(name, ok) == IF ok THEN TRUE ELSE PrintT(<<"T1", l, name>>)
Res(e) == <<e.res, ToSet(e.model)>>
(* the instance of a volume call: x1 and (x_i \/ ~x_{i+1}) over 6 variables: every model has x1 true *)
IsTrunc(e) == Len(e.mode) > 6 /\ SubSeq(e.mode, 1, 6) = "trunc:"
(* child kinds of ExtSat.tla: pad = ReadAllThenWrite, earlypad = WriteFirstThenRead, interleave = WriteWhileReading,          *)
(* noread = ExitWithoutReading (no verdict printed: the call must return, and not with a result); inkb = KiB written to stdin *)
IsNoRead(e) == Len(e.mode) > 7 /\ SubSeq(e.mode, 1, 7) = "noread:"
(* lategarbage:N = a complete answer, N bytes of comments, then a line that is not DIMACS: a garbled reply, wherever the garbage is *)
IsGarbled(e) == Len(e.mode) > 12 /\ SubSeq(e.mode, 1, 12) = "lategarbage:"
JudgeVolume(e) ==
  /\ Report("C16:call_returns", e.finished)
  /\ (e.finished /\ IsNoRead(e)) => Report("C16:no_verdict_is_not_a_result", e.res \in {"unknown", "abort"})
  /\ (e.finished /\ IsGarbled(e)) => /\ Report("C16:garbled_reply_is_not_a_result", e.res \in {"unknown", "abort"})
                                     /\ Report("C17:garbled_reply_is_not_a_result", e.res \in {"unknown", "abort"})
  /\ (e.finished /\ ~IsTrunc(e) /\ ~IsNoRead(e) /\ ~IsGarbled(e)) => Report("C16:reply_kept", e.res = "sat" /\ 1 \in ToSet(e.model) /\ Cardinality(ToSet(e.model)) = 6)
  \* a model cut after K literals (no terminating 0), wherever the cut falls, is not a result (also C17)
  /\ (e.finished /\ IsTrunc(e)) => /\ Report("C16:truncated_model_is_not_a_result", e.res \in {"unknown", "abort"})
                                   /\ Report("C17:truncated_model_is_not_a_result", e.res \in {"unknown", "abort"})
Init == l = 1
Next ==
  /\ l <= Len(Rec)
  /\ l' = l + 1
  /\ LET e == Rec[l] IN
     CASE e.ev = "dimacs" -> Report("C16:header_wellformed", e.wellformed /\ HeaderOK(e.nv, e.nc, e.maxvar, e.nclauses))
       [] e.ev = "reply" -> LET v == Classify(e.lines) IN
                            /\ Report("C16:reply_" \o v[1], Conforms(v, Res(e)))
                            /\ v[1] = "MustNotResult" => Report("C17:failed_reply_is_not_a_result", Conforms(v, Res(e)))
       [] e.ev = "volume" -> JudgeVolume(e)
       [] OTHER -> TRUE
Spec == Init /\ [][Next]_l
Consumed == TLCGet("stats").diameter - 1 = Len(Rec) \/ PrintT(<<"UNCONSUMED", TLCGet("stats").diameter, Len(Rec)>>)
=============================================================================
