CONSTANT N = 3
SPECIFICATION Spec
CHECK_DEADLOCK FALSE
INVARIANT GRLeastComplete
INVARIANT Chain
INVARIANT StableCoincide
INVARIANT CredCOPR
INVARIANT SkepCOisGR
INVARIANT NonEmpty
INVARIANT SkepImpliesCred
INVARIANT Product
INVARIANT IdealUnique
INVARIANT IsoInvariant
INVARIANT ComponentsPartition
INVARIANT FastEqual
INVARIANT SinkDirectionality
INVARIANT LiftTheorem
INVARIANT ReductTheorem
INVARIANT MetaFast
INVARIANT Export
