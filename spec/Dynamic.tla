------------------------------ MODULE Dynamic ------------------------------
(***************************************************************************)
(* S3: the buffered dynamic solvers (complete / stable; the preferred one  *)
(* runs the search machine of Static.tla on the same encoding) -- C08, C09 *)
(*                                                                         *)
(*   L        the logical framework: what the caller has requested         *)
(*            (Store.tla state; updates are validated against it when      *)
(*            they are issued -- the repaired protocol, fix ba93465)       *)
(*   E        the framework as last replayed into the SAT encoding         *)
(*   buffer   accepted updates not yet replayed (update_encoding is lazy)  *)
(*   snap     for every live argument of E, the attacker set under which   *)
(*            its constraints were last issued (guarded by a selector      *)
(*            that is assumed; older selectors are retired)                *)
(*   ghosts   removed arguments: their variable is fixed TRUE              *)
(*   cache    computations recorded since the last update event            *)
(* A query first looks in the cache, else replays the buffer (re-issuing   *)
(* the constraints of: new arguments, targets of added / removed attacks,  *)
(* arguments attacked by a removed argument), then asks the SAT oracle     *)
(* for ANY model of the clause set under the current assumptions.          *)
(* The clause set is modelled by its meaning: ModelSets below are exactly  *)
(* the assignments allowed by the selector-guarded clauses of              *)
(* DynamicConstraintsEncoder for the recorded snapshots.                   *)
(***************************************************************************)
EXTENDS Dung, TLC, Sequences, FiniteSets
CONSTANTS Labels, MaxIds, MaxBuffer, Sem, ReissueRule, StaleCertificate
VARIABLES L, E, buffer, snap, ghosts, cache, ok, lastq
vars == <<L, E, buffer, snap, ghosts, cache, ok, lastq>>
St == INSTANCE Store WITH s <- L

Ops == St!Ops
Init == /\ L = St!InitS /\ E = St!InitS /\ buffer = <<>> /\ snap = <<>> /\ ghosts = {}
        /\ cache = <<>> /\ ok = TRUE /\ lastq = <<"none">>

(* ---------------- updates: validated at once, replayed lazily ---------------- *)
Update(o) ==
  LET r == St!Step(L, o) IN
  /\ IF r.res = "err" \/ r.st = L
     THEN UNCHANGED <<L, buffer, cache>>                    \* rejected or redundant: nothing is buffered, nothing changes
     ELSE /\ Len(buffer) < MaxBuffer /\ r.st.nextId <= MaxIds
          /\ L' = r.st /\ buffer' = Append(buffer, o) /\ cache' = <<>>     \* an update event separates later queries from older answers
  /\ lastq' = <<"update", o, r.res>>
  /\ UNCHANGED <<E, snap, ghosts, ok>>

(* ---------------- replay (BufferedDynamicConstraintsEncoder::update_encoding) ---------------- *)
AttackersIn(x, i) == {p[1] : p \in {q \in x.att : q[2] = i}}
AttackedIn(x, i)  == {p[2] : p \in {q \in x.att : q[1] = i}}
(* state of the replay: [e, must, gh, sn] *)
ReplayOne(rs, o) ==
  LET e2 == St!Step(rs.e, o).st IN
  CASE o.op = "newarg" -> [e |-> e2, must |-> rs.must \cup {rs.e.nextId}, gh |-> rs.gh,
                           sn |-> rs.sn @@ (rs.e.nextId :> {})]
    [] o.op = "rmarg" -> LET i == rs.e.live[o.a] IN
                         [e |-> e2,
                          must |-> rs.must \cup (IF ReissueRule = "forget_attacked_by_removed" THEN {} ELSE AttackedIn(rs.e, i) \ {i}),
                          gh |-> rs.gh \cup {i},
                          sn |-> [j \in DOMAIN rs.sn \ {i} |-> rs.sn[j]]]
    [] o.op \in {"newatt", "rmatt"} -> [e |-> e2, must |-> rs.must \cup {rs.e.live[o.b]}, gh |-> rs.gh, sn |-> rs.sn]
RECURSIVE ReplayAll(_, _)
ReplayAll(rs, ops) == IF ops = <<>> THEN rs ELSE ReplayAll(ReplayOne(rs, Head(ops)), Tail(ops))
Replayed ==
  LET rs == ReplayAll([e |-> E, must |-> {}, gh |-> ghosts, sn |-> snap], buffer)
      liveIds == St!LiveIds(rs.e)
  IN [e |-> rs.e, gh |-> rs.gh,
      sn |-> [i \in DOMAIN rs.sn |-> IF i \in rs.must /\ i \in liveIds THEN AttackersIn(rs.e, i) ELSE rs.sn[i]]]

(* ---------------- meaning of the clause set under the current assumptions ---------------- *)
(* S ranges over sets of live ids; a ghost is always "in" and never attacked *)
ModelSets(x, sn, gh) ==
  LET live == St!LiveIds(x)
      In(S, b) == b \in S \/ b \in gh
      P(S, a) == a \in live /\ \E b \in sn[a] : In(S, b)                 \* attacker-disjunction variable of a
  IN IF Sem = "ST"
     THEN {S \in SUBSET live : \A a \in live : (a \in S) = (\A b \in sn[a] : ~In(S, b))}
     ELSE {S \in SUBSET live : \A a \in live : ((a \in S) = (\A b \in sn[a] : P(S, b))) /\ ((a \in S) => ~P(S, a))}
LabelsOf(x, S) == {l \in DOMAIN x.live : x.live[l] \in S}

(* ---------------- the preferred solver: skeptical queries answered by the search machine of Static.tla ---------------- *)
(* (run on the shared solver under the current assumptions); what is recorded for later queries: on YES the arguments in   *)
(* every maximal set seen, on NO the counter-example extension and arguments proved to be missing from some maximal set.   *)
(* StaleCertificate = TRUE is the pinned design (defect F7): a cached refusal is served with the stored extension even if  *)
(* that extension contains the argument now asked about.                                                                  *)
PRQuery(a) ==
  /\ Sem = "PR" /\ a \in DOMAIN L.live
  /\ LET hitNo == {c \in 1..Len(cache) : cache[c].kind = "prNo" /\ a \in cache[c].refused /\ (StaleCertificate \/ a \notin cache[c].inModel)}
         hitYes == {c \in 1..Len(cache) : cache[c].kind = "prYes" /\ a \in cache[c].inModel}
         ref == SkepIn(Fam(St!AsAF(L), "PR"), {a})
     IN IF hitYes # {}
        THEN /\ ok' = (ok /\ ref) /\ lastq' = <<"cached", a, FALSE, TRUE>> /\ UNCHANGED <<L, E, buffer, snap, ghosts, cache>>
        ELSE IF hitNo # {}
        THEN LET c == cache[CHOOSE i \in hitNo : \A j \in hitNo : j <= i] IN
             /\ ok' = (ok /\ ~ref /\ c.inModel \in Fam(St!AsAF(L), "PR") /\ a \notin c.inModel)
             /\ lastq' = <<"cached", a, FALSE, FALSE>> /\ UNCHANGED <<L, E, buffer, snap, ghosts, cache>>
        ELSE LET r == Replayed
                 co == {LabelsOf(r.e, S) : S \in ModelSets(r.e, r.sn, r.gh)}
                 pr == MaxSubset(co)
                 counter == {X \in pr : a \notin X}
                 missingSomewhere == {b \in DOMAIN r.e.live : \E X \in pr : b \notin X}
             IN /\ E' = r.e /\ snap' = r.sn /\ ghosts' = r.gh /\ buffer' = <<>> /\ UNCHANGED L
                /\ IF counter = {}
                   THEN /\ cache' = Append(cache, [kind |-> "prYes", arg |-> a, inModel |-> InterAll(pr, DOMAIN r.e.live), hasExt |-> FALSE, refused |-> {}])
                        /\ ok' = (ok /\ ref) /\ lastq' = <<"solved", a, FALSE, TRUE>>
                   ELSE \E X \in counter : \E R \in SUBSET missingSomewhere :
                        /\ a \in R
                        /\ cache' = Append(cache, [kind |-> "prNo", arg |-> a, inModel |-> X, hasExt |-> TRUE, refused |-> R])
                        /\ ok' = (ok /\ ~ref /\ X \in Fam(St!AsAF(L), "PR"))
                        /\ lastq' = <<"solved", a, FALSE, FALSE>>

(* ---------------- queries ---------------- *)
Ref(a, cred) == IF cred THEN CredIn(Fam(St!AsAF(L), Sem), {a}) ELSE SkepIn(Fam(St!AsAF(L), Sem), {a})
CertOK(a, cred, ext) == ext \in Fam(St!AsAF(L), Sem) /\ (IF cred THEN a \in ext ELSE a \notin ext)

CacheHit(a, cred) ==          \* answers derived from a previous model, reused while no update event intervened
  IF cred THEN {c \in 1..Len(cache) : a \in cache[c].inModel \/ (cache[c].kind = "credNo" /\ cache[c].arg = a)}
  ELSE {c \in 1..Len(cache) : (cache[c].kind = "skepYes" /\ cache[c].arg = a) \/ (cache[c].hasExt /\ a \notin cache[c].inModel /\ cache[c].kind # "credNo" /\ cache[c].kind # "skepYes")}

Query(a, cred) ==
  /\ a \in DOMAIN L.live /\ Sem # "PR"
  /\ (cred \/ Sem = "ST")                                  \* the complete solver answers credulous queries only
  /\ IF CacheHit(a, cred) # {}
     THEN LET c == cache[CHOOSE i \in CacheHit(a, cred) : \A j \in CacheHit(a, cred) : j <= i] IN
          /\ LET st == IF cred THEN a \in c.inModel ELSE ~(c.hasExt /\ a \notin c.inModel) IN
             /\ ok' = (ok /\ st = Ref(a, cred) /\ ((cred = st) => (c.hasExt /\ CertOK(a, cred, c.inModel))))
             /\ lastq' = <<"cached", a, cred, st>>
          /\ UNCHANGED <<L, E, buffer, snap, ghosts, cache>>
     ELSE LET r == Replayed
              ms == ModelSets(r.e, r.sn, r.gh)
              want == IF cred THEN {S \in ms : r.e.live[a] \in S} ELSE {S \in ms : r.e.live[a] \notin S}
          IN /\ E' = r.e /\ snap' = r.sn /\ ghosts' = r.gh /\ buffer' = <<>> /\ UNCHANGED L
             /\ \/ /\ want = {}
                   /\ cache' = Append(cache, [kind |-> IF cred THEN "credNo" ELSE "skepYes", arg |-> a, inModel |-> {}, hasExt |-> FALSE, refused |-> {}])
                   /\ ok' = (ok /\ (IF cred THEN ~Ref(a, cred) ELSE Ref(a, cred)))
                   /\ lastq' = <<"solved", a, cred, ~cred>>
                \/ \E S \in want :
                   LET ext == LabelsOf(r.e, S) IN
                   /\ cache' = Append(cache, [kind |-> "model", arg |-> a, inModel |-> ext, hasExt |-> TRUE, refused |-> {}])
                   /\ ok' = (ok /\ (IF cred THEN Ref(a, cred) ELSE ~Ref(a, cred)) /\ CertOK(a, cred, ext))
                   /\ lastq' = <<"solved", a, cred, cred>>

Next == (\E o \in Ops : Update(o)) \/ (\E a \in Labels : \E cred \in BOOLEAN : Query(a, cred)) \/ (\E a \in Labels : PRQuery(a))
Spec == Init /\ [][Next]_vars

(* ---------------- properties ---------------- *)
AnswersAndCertificatesCorrect == ok                                          \* C08 (and C09: rejected / redundant updates change nothing)
(* the design argument: once the buffer is replayed, every live argument's constraints describe its current attackers,
   no snapshot mentions a removed argument, and the models are exactly the extensions of the logical framework *)
SnapshotsCurrent == buffer = <<>> => /\ E = L
                                     /\ DOMAIN snap = St!LiveIds(L)
                                     /\ \A i \in St!LiveIds(L) : snap[i] = AttackersIn(L, i)
ModelsAreExtensions == buffer = <<>> => {LabelsOf(E, S) : S \in ModelSets(E, snap, ghosts)} = Fam(St!AsAF(L), IF Sem = "PR" THEN "CO" ELSE Sem)
CacheOnlyCurrent == \A c \in 1..Len(cache) : cache[c].hasExt => cache[c].inModel \in Fam(St!AsAF(L), Sem)
=============================================================================
