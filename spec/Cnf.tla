-------------------------------- MODULE Cnf --------------------------------
(* Propositional vocabulary shared by Sat.tla (C15), ExtSat.tla (C16) and Enc.tla (C10):           *)
(* literals are non-zero integers, clauses are sets of literals, assignments are functions 1..n -> BOOLEAN *)
EXTENDS Integers, FiniteSets, Sequences
Abs(l) == IF l < 0 THEN -l ELSE l
MaxVarOf(cls) == LET vs == {Abs(l) : l \in UNION cls} IN IF vs = {} THEN 0 ELSE CHOOSE v \in vs : \A w \in vs : w <= v
LitTrue(a, l) == IF l > 0 THEN a[l] ELSE ~a[-l]
SatClause(a, c) == \E l \in c : LitTrue(a, l)
ModelsOf(cls, n) == {a \in [1..n -> BOOLEAN] : \A c \in cls : SatClause(a, c)}
(* a partial model given as the set of literals reported true *)
LitsSatisfy(m, c) == c \cap m # {}
Consistent(m) == \A l \in m : -l \notin m
=============================================================================
