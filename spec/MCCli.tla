------------------------------- MODULE MCCli -------------------------------
(* enumerates the abstract invocation space; every invocation is exported with the outcome Cli.tla assigns to it *)
EXTENDS Cli, TLC, Json
VARIABLE inv
Files == {"good", "missing", "badheader", "outofrange", "afterblank", "undeclared", "argafteratt", "wrongformat", "bincomment"}
PClasses == {"valid", "nohyphen", "badquery", "badsem", "trailing", "trailinghyphen", "padded", "unicodefold", "absent"}
ArgClasses == {"absent", "valid", "toobig", "zero", "negative", "nan"}
Encs == {"unset", "aux_var", "exp", "hybrid", "invalid"}
Space == [bin : {"crustabri", "iccma23"}, file : Files, fmt : {"iccma", "apx"}, pclass : PClasses, kind : Queries,
          argc : ArgClasses, enc : Encs, cert : BOOLEAN, log : {"off", "default"}]
(* the wrapper takes -f -p -a only: it always reads ICCMA'23, always asks for certificates, always silences the log *)
Legal(i) == /\ i.bin = "iccma23" => i.fmt = "iccma" /\ i.enc = "unset" /\ i.cert /\ i.log = "off" /\ i.file \notin {"undeclared", "argafteratt"}
            /\ i.fmt = "iccma" => i.file \notin {"undeclared", "argafteratt"}
            /\ i.fmt = "apx" => i.file \notin {"badheader", "outofrange", "afterblank", "bincomment"}
            /\ i.pclass # "valid" => i.kind = "SE"
Init == inv \in {i \in Space : Legal(i)}
Next == UNCHANGED inv
Spec == Init /\ [][Next]_inv
TotalOutcome == Outcome(inv) \in {"answer", "refusal", "unspecified", "answer_or_refusal"}
(* an answer is promised exactly for well-formed invocations *)
AnswerIffWellFormed == (Outcome(inv) = "answer") <=>
   (inv.file = "good" /\ inv.pclass = "valid" /\ inv.enc # "invalid" /\ (IF inv.kind = "SE" THEN inv.argc \in {"absent", "valid"} ELSE inv.argc = "valid"))
Export == PrintT(<<"REPLAY", ToJson([inv |-> inv, outcome |-> Outcome(inv)])>>)
=============================================================================
