------------------------------- MODULE MCSat -------------------------------
(* all histories over 3 variables and the clause universe {empty, unit, binary clauses}; exports one history per *)
(* distinct solver state, which the harness replays on CadicalSolver and ExternalSatSolver with every assumption set *)
EXTENDS Sat, Json, SequencesExt
CONSTANT MaxClauses
VARIABLE hist
ClauseUniverse == {{}} \cup {{l} : l \in Lits} \cup {{a, b} : a \in Lits, b \in Lits}
Init2 == Init /\ hist = <<>>
Next2 == \/ \E c \in Clauses : AddClause(c) /\ c \notin cls /\ hist' = Append(hist, [op |-> "add", lits |-> SetToSeq(c), k |-> 0])
         \/ \E k \in 1..NVars : Reserve(k) /\ k > declared /\ hist' = Append(hist, [op |-> "reserve", lits |-> <<>>, k |-> k])
         \/ \E A \in AssumptionSets : Solve(A) /\ UNCHANGED hist
Spec2 == Init2 /\ [][Next2]_<<vars, hist>>
View == <<cls, declared>>
Bound == Cardinality(cls) <= MaxClauses
Export == PrintT(<<"REPLAY", ToJson([hist |-> hist])>>)
=============================================================================
