----------------------------- MODULE EquivAlgo -----------------------------
(***************************************************************************)
(* S9: the equivalence reduction of utils/equivalency_computer.rs          *)
(* transcribed as pure operators (a self-contained function with rich case *)
(* analysis): propagation of acceptance / defeat from seed arguments with  *)
(* attack counters, grounded classes, then pairwise merging of arguments   *)
(* whose propagations reach each other.  Arguments are 1..n in id order.   *)
(* MCEquiv checks C19 (Equiv.tla) on its result for all frameworks with    *)
(* <= 4 arguments; TraceEquiv compares it with the classes computed by the *)
(* real code (T2: translation validation).                                 *)
(***************************************************************************)
EXTENDS Equiv, Sequences, FiniteSets, TLC

NAttTo(af) == [a \in af.args |-> Cardinality(AttackersOf(af, a))]
OutOf(af, a) == {p[2] : p \in {q \in af.att : q[1] = a}}

(* propagate(af, n_attacks_to, seeds): state [q: queue, i: next index, prop, def, cnt]; result "none" on conflict *)
RECURSIVE DecAll(_, _, _, _, _)
(* for each argument attacked by a newly defeated one: decrement, push when it reaches 0 (seeds are never pushed) *)
DecAll(st, todo, seeds, af, dummy) ==
  IF todo = {} THEN st
  ELSE LET d == CHOOSE x \in todo : \A y \in todo : x <= y IN
       IF d \in seeds THEN DecAll(st, todo \ {d}, seeds, af, dummy)
       ELSE LET c == st.cnt[d] - 1
                st2 == [st EXCEPT !.cnt[d] = c] IN
            IF c = 0 THEN DecAll([st2 EXCEPT !.q = Append(st2.q, d), !.prop = st2.prop \cup {d}], todo \ {d}, seeds, af, dummy)
            ELSE DecAll(st2, todo \ {d}, seeds, af, dummy)
RECURSIVE Defeat(_, _, _, _)
Defeat(st, targets, seeds, af) ==
  IF targets = {} THEN st
  ELSE LET t == CHOOSE x \in targets : \A y \in targets : x <= y IN
       IF t \in st.prop THEN [st EXCEPT !.fail = TRUE]
       ELSE IF t \in st.def THEN Defeat(st, targets \ {t}, seeds, af)
       ELSE Defeat(DecAll([st EXCEPT !.def = st.def \cup {t}], OutOf(af, t), seeds, af, 0), targets \ {t}, seeds, af)
RECURSIVE Loop(_, _, _)
Loop(st, seeds, af) ==
  IF st.fail THEN st
  ELSE IF st.i > Len(st.q) THEN st
  ELSE LET a == st.q[st.i]
           s2 == Defeat([st EXCEPT !.i = st.i + 1], OutOf(af, a), seeds, af)
       IN Loop(s2, seeds, af)
SortedSeq(S) == LET RECURSIVE Srt(_)
                    Srt(X) == IF X = {} THEN <<>> ELSE LET m == CHOOSE x \in X : \A y \in X : x <= y IN <<m>> \o Srt(X \ {m})
                IN Srt(S)
Propagate(af, seeds) ==
  LET r == Loop([q |-> SortedSeq(seeds), i |-> 1, prop |-> seeds, def |-> {}, cnt |-> NAttTo(af), fail |-> FALSE], seeds, af)
  IN IF r.fail THEN [ok |-> FALSE, prop |-> {}, def |-> {}] ELSE [ok |-> TRUE, prop |-> r.prop, def |-> r.def]

(* compute_classes *)
RECURSIVE Merge(_, _, _, _, _)
(* candidates of arg a, in increasing order: id joins a's class when its own propagation reaches a *)
Merge(af, a, cands, cls, inCls) ==
  IF cands = {} THEN [cls |-> cls, inCls |-> inCls]
  ELSE LET id == CHOOSE x \in cands : \A y \in cands : x <= y
           p == Propagate(af, {id}) IN
       IF p.ok /\ a \in p.prop THEN Merge(af, a, cands \ {id}, cls \cup {id}, inCls \cup {id})
       ELSE Merge(af, a, cands \ {id}, cls, inCls)
RECURSIVE ClassesFrom(_, _, _, _)
ClassesFrom(af, a, inCls, acc) ==
  IF a > Cardinality(af.args) THEN acc
  ELSE IF a \in inCls THEN ClassesFrom(af, a + 1, inCls, acc)
  ELSE LET p == Propagate(af, {a}) IN
       IF ~p.ok THEN ClassesFrom(af, a + 1, inCls \cup {a}, acc \cup {{a}})
       ELSE LET cands == {x \in p.prop : x \notin inCls /\ x > a}
                m == Merge(af, a, cands, {a}, inCls \cup {a})
            IN ClassesFrom(af, a + 1, m.inCls, acc \cup {m.cls})
Classes(af) ==
  LET unatt == {a \in af.args : AttackersOf(af, a) = {}}
      g == Propagate(af, unatt)
  IN IF ~g.ok THEN {{a} : a \in af.args}
     ELSE LET base == {c \in {g.prop, g.def} : c # {}} IN
          ClassesFrom(af, 1, g.prop \cup g.def, base)
=============================================================================
