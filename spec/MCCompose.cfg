CONSTANTS N = 3
  CompletionRule = "code"
SPECIFICATION Spec
CHECK_DEADLOCK FALSE
INVARIANT StatusIsGlobal
INVARIANT CertificateIsGlobal
INVARIANT CertificateWhenPromised
