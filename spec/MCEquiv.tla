------------------------------ MODULE MCEquiv ------------------------------
EXTENDS EquivAlgo
CONSTANT NMax
VARIABLES n, k, att
Init == n \in 0..NMax /\ k = 0 /\ att = {}
AddRow == /\ k < n /\ \E T \in SUBSET (1..n) : att' = att \cup {<<k + 1, t>> : t \in T}
          /\ k' = k + 1 /\ UNCHANGED n
Spec == Init /\ [][AddRow]_<<n, k, att>>
af == [args |-> 1..n, att |-> att]
(* C19 on the algorithm itself *)
ReductionSound == (k = n) => LET cl == Classes(af) IN SoundClasses(af, cl) /\ Partition(af, cl)
GroundedTogether == (k = n) => LET cl == Classes(af) IN
     /\ (Grounded(af) # {} => Grounded(af) \in cl)
     /\ (AttackedBy(af, Grounded(af)) # {} => AttackedBy(af, Grounded(af)) \in cl)
=============================================================================
