------------------------------- MODULE ExtSat -------------------------------
(***************************************************************************)
(* S6 / S5: the exchange with an external SAT solver process (C16).        *)
(*                                                                         *)
(* Part 1 (processes).  exec_solver spawns a child with piped stdin and    *)
(* stdout, a helper thread feeds stdin, the caller consumes stdout.  The   *)
(* two OS pipes are bounded (Cap).  Actors: feeder thread, child process   *)
(* (four behaviours), parent.  ParentOrder is the one design decision:     *)
(*   "WaitThenDrain" : wait for the child, then read its output            *)
(*   "DrainThenWait" : read the output to end-of-file, then wait           *)
(* TLC shows that WaitThenDrain deadlocks as soon as the reply exceeds the *)
(* pipe capacity (child blocked in write, parent in wait) and that         *)
(* DrainThenWait always terminates.                                        *)
(*                                                                         *)
(* Parts 2 (reply interpretation) and 3 (header) are in ExtReply.tla.      *)
(***************************************************************************)
EXTENDS Integers, Sequences, FiniteSets, TLC

(* ------------------------------ Part 1 ------------------------------ *)
CONSTANTS Cap, MaxIn, MaxOut, ParentOrder
ChildKinds == {"ReadAllThenWrite", "WriteWhileReading", "WriteFirstThenRead", "ExitWithoutReading"}
VARIABLES kind, inLeft, inPipe, eofSeen, outLeft, outPipe, child, feeder, parent, got
pvars == <<kind, inLeft, inPipe, eofSeen, outLeft, outPipe, child, feeder, parent, got>>

PInit == /\ kind \in ChildKinds /\ inLeft \in 0..MaxIn /\ outLeft \in 0..MaxOut
         /\ inPipe = 0 /\ outPipe = 0 /\ eofSeen = FALSE /\ got = 0
         /\ child = "running" /\ feeder = "running"
         /\ parent = IF ParentOrder = "WaitThenDrain" THEN "waiting" ELSE "draining"

FeederWrite == /\ feeder = "running" /\ inLeft > 0
               /\ IF child = "exited" THEN feeder' = "broken" /\ UNCHANGED <<inLeft, inPipe>>      \* EPIPE
                  ELSE inPipe < Cap /\ inLeft' = inLeft - 1 /\ inPipe' = inPipe + 1 /\ UNCHANGED feeder
               /\ UNCHANGED <<kind, eofSeen, outLeft, outPipe, child, parent, got>>
FeederClose == /\ feeder = "running" /\ inLeft = 0 /\ feeder' = "done"
               /\ UNCHANGED <<kind, inLeft, inPipe, eofSeen, outLeft, outPipe, child, parent, got>>
MayRead  == kind \in {"ReadAllThenWrite", "WriteWhileReading"} \/ (kind = "WriteFirstThenRead" /\ outLeft = 0)
MayWrite == kind \in {"WriteWhileReading", "WriteFirstThenRead", "ExitWithoutReading"} \/ (kind = "ReadAllThenWrite" /\ eofSeen)
ChildRead == /\ child = "running" /\ MayRead /\ inPipe > 0 /\ inPipe' = inPipe - 1
             /\ UNCHANGED <<kind, inLeft, eofSeen, outLeft, outPipe, child, feeder, parent, got>>
ChildEOF == /\ child = "running" /\ MayRead /\ inPipe = 0 /\ feeder \in {"done", "broken"} /\ ~eofSeen /\ eofSeen' = TRUE
            /\ UNCHANGED <<kind, inLeft, inPipe, outLeft, outPipe, child, feeder, parent, got>>
ChildWrite == /\ child = "running" /\ MayWrite /\ outLeft > 0 /\ outPipe < Cap
              /\ outLeft' = outLeft - 1 /\ outPipe' = outPipe + 1
              /\ UNCHANGED <<kind, inLeft, inPipe, eofSeen, child, feeder, parent, got>>
ChildExit == /\ child = "running" /\ outLeft = 0 /\ (kind = "ExitWithoutReading" \/ eofSeen) /\ child' = "exited"
             /\ UNCHANGED <<kind, inLeft, inPipe, eofSeen, outLeft, outPipe, feeder, parent, got>>
ParentWaitReturns == /\ parent = "waiting" /\ child = "exited"
                     /\ parent' = IF ParentOrder = "WaitThenDrain" THEN "draining" ELSE "done"
                     /\ UNCHANGED <<kind, inLeft, inPipe, eofSeen, outLeft, outPipe, child, feeder, got>>
ParentDrain == /\ parent = "draining" /\ outPipe > 0 /\ outPipe' = outPipe - 1 /\ got' = got + 1
               /\ UNCHANGED <<kind, inLeft, inPipe, eofSeen, outLeft, child, feeder, parent>>
ParentSeesEOF == /\ parent = "draining" /\ outPipe = 0 /\ child = "exited"
                 /\ parent' = IF ParentOrder = "WaitThenDrain" THEN "done" ELSE "waiting"
                 /\ UNCHANGED <<kind, inLeft, inPipe, eofSeen, outLeft, outPipe, child, feeder, got>>
PNext == FeederWrite \/ FeederClose \/ ChildRead \/ ChildEOF \/ ChildWrite \/ ChildExit
           \/ ParentWaitReturns \/ ParentDrain \/ ParentSeesEOF
PSpec == PInit /\ [][PNext]_pvars /\ WF_pvars(PNext)

(* the call returns whatever the volume of the solver's output *)
CallReturns == <>(parent = "done")
NoStuck == (parent # "done") => ENABLED PNext
(* and nothing of the reply is lost *)
AllOutputRead == parent = "done" => outPipe = 0 /\ outLeft = 0
=============================================================================
