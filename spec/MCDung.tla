------------------------------ MODULE MCDung ------------------------------
(***************************************************************************)
(* Exhaustive check of the theorems about the semantics that the other     *)
(* modules and property C11 rely on, over ALL labelled frameworks (with    *)
(* self-attacks) on 0..N arguments; the same run exports every framework   *)
(* (REF lines) -- these are the behaviours replayed into the real code.    *)
(* The attack relation is built row by row so that TLC's workers share the *)
(* enumeration.                                                            *)
(***************************************************************************)
EXTENDS Meta, TLC, Json, SequencesExt, FiniteSetsExt
CONSTANT N
VARIABLES n, k, att
vars == <<n, k, att>>

Init == n \in 0..N /\ k = 0 /\ att = {}
AddRow == /\ k < n
          /\ \E T \in SUBSET (1..n) : att' = att \cup {<<k + 1, t>> : t \in T}
          /\ k' = k + 1 /\ UNCHANGED n
Next == AddRow
Spec == Init /\ [][Next]_vars

Done == k = n
af == [args |-> 1..n, att |-> att]

GRLeastComplete == Done => /\ Grounded(af) \in CO(af)
                           /\ \A S \in CO(af) : Grounded(af) \subseteq S
Chain == Done => /\ Grounded(af) \subseteq Ideal(af)
                 /\ \A P \in PR(af) : Ideal(af) \subseteq P
                 /\ Ideal(af) \in CO(af)
                 /\ PR(af) \subseteq CO(af)
                 /\ SST(af) \subseteq PR(af)
StableCoincide == Done => /\ ST(af) \subseteq SST(af) /\ ST(af) \subseteq STG(af)
                          /\ (ST(af) # {} => SST(af) = ST(af) /\ STG(af) = ST(af))
CredCOPR == Done => \A a \in af.args : Cred(af, "CO", {a}) = Cred(af, "PR", {a})
SkepCOisGR == Done => \A a \in af.args : Skep(af, "CO", {a}) = (a \in Grounded(af))
NonEmpty == Done => \A s \in Sems \ {"ST"} : Fam(af, s) # {}
SkepImpliesCred == Done => \A s \in Sems : Fam(af, s) # {} =>
                      \A a \in af.args : Skep(af, s, {a}) => Cred(af, s, {a})
Product == Done => \A s \in Sems : Fam(af, s) = ProductFam(af, Components(af), s)
IdealUnique == Done => LET adm == ADM(af)
                           I == InterAll(MaxSubset(adm), af.args)
                           C == {S \in adm : S \subseteq I}
                       IN Cardinality({S \in C : \A T \in C : T \subseteq S}) = 1
IsoInvariant == Done => \A pi \in Permutations(af.args) : \A s \in Sems :
                   Fam(Rename(af, pi), s) = {{pi[a] : a \in S} : S \in Fam(af, s)}
(* components: a partition, closed under attacks *)
ComponentsPartition == Done => /\ UNION Components(af) = af.args
                               /\ \A c, d \in Components(af) : c = d \/ c \cap d = {}
                               /\ \A p \in af.att : ComponentOf(af, p[1]) = ComponentOf(af, p[2])

FastEqual == Done => \A s \in Sems : FamFast(af, s) = Fam(af, s)

(* directionality (used by the pad_sinks relation of C11): adding an argument that is only attacked leaves the statuses of the    *)
(* other arguments unchanged under GR, CO, PR, ID, ST.  Checked here by making the LAST argument a sink: compare with its removal. *)
SinkDirectionality == (Done /\ n >= 2 /\ \A p \in att : p[1] # n) =>
   LET small == RestrictAF(af, 1..(n - 1)) IN
   \A s \in {"GR", "CO", "PR", "ID", "ST"} : \A a \in 1..(n - 1) :
      /\ Cred(af, s, {a}) = Cred(small, s, {a})
      /\ Skep(af, s, {a}) = Skep(small, s, {a})

LiftTheorem == (Done /\ n >= 2 /\ \A p \in att : p[1] # n) =>
   /\ LiftedFam(af, 1..(n - 1), "CO") = CO(af)
   /\ LiftedFam(af, 1..(n - 1), "ST") = ST(af)

ReductTheorem == Done =>
   /\ GroundedFast(af) = Grounded(af)
   /\ \A s \in ReductSems : FamByReduct(af, s) = Fam(af, s)

MetaFast == Done => FastEqualsTextbook(af)

Export == Done => PrintT(<<"REF", ToJson([n |-> n, att |-> SetToSeq(att)])>>)
=============================================================================
