CONSTANTS NMax = 3
  HybridThreshold = 2
SPECIFICATION Spec
CHECK_DEADLOCK FALSE
INVARIANT AllCorrect
