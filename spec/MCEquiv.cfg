CONSTANTS NMax = 3
SPECIFICATION Spec
CHECK_DEADLOCK FALSE
INVARIANT ReductionSound
INVARIANT GroundedTogether
