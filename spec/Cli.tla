-------------------------------- MODULE Cli --------------------------------
(***************************************************************************)
(* S8: the command-line pipeline (C05) as a function from an abstract      *)
(* invocation to the outcome the property prescribes:                      *)
(*   parse args -> read file -> parse query argument -> parse problem ->   *)
(*   check -> solve -> print -> exit status                                *)
(* An invocation is a record                                               *)
(*   bin    : "crustabri" | "iccma23"   (the ICCMA'23 wrapper)             *)
(*   file   : "good" | "missing" | "badheader" | "outofrange" |            *)
(*            "afterblank" | "undeclared" | "argafteratt" | "wrongformat"  *)
(*            | "bincomment"                                                *)
(*   pclass : "valid" | "nohyphen" | "badquery" | "badsem" | "trailing"    *)
(*            | "trailinghyphen" | "padded" | "unicodefold" | "absent"     *)
(*            (anything but one                                             *)
(*            of the 21 problems, up to case, is not a problem)             *)
(*   kind   : "SE" | "DC" | "DS" (of a valid problem)                      *)
(*   argc   : "absent" | "valid" | "toobig" | "zero" | "negative" | "nan"  *)
(*   enc    : "unset" | "aux_var" | "exp" | "hybrid" | "invalid"           *)
(*   cert, log : certificate flag, logging level ("off" | "default")       *)
(***************************************************************************)
EXTENDS Naturals, Sequences, FiniteSets
Queries == {"SE", "DC", "DS"}
SemNames == {"GR", "CO", "PR", "ST", "SST", "STG", "ID"}
Problems == {q \o "-" \o s : q \in Queries, s \in SemNames}      \* the 21 problems of --problems

OutcomeOn(inv, file) ==
  IF file # "good" \/ inv.pclass # "valid" \/ inv.enc = "invalid" THEN "refusal"
  ELSE IF inv.kind \in {"DC", "DS"} THEN (IF inv.argc = "valid" THEN "answer" ELSE "refusal")
  ELSE IF inv.argc \in {"absent", "valid"} THEN "answer"          \* SE: a useless argument is only worth a warning
  ELSE "unspecified"                                               \* SE with an argument that does not exist
(* file "bincomment": a well-formed ICCMA'23 file but for a comment line, before the attacks, that is not valid UTF-8.  Whether that is an  *)
(* ill-formed file is not for the property to say: the invocation is refused, or answered FOR THE FRAMEWORK THE FILE DECLARES.             *)
Outcome(inv) ==
  IF inv.file = "bincomment"
  THEN (IF OutcomeOn(inv, "good") = "answer" THEN "answer_or_refusal" ELSE OutcomeOn(inv, "good"))
  ELSE OutcomeOn(inv, inv.file)

(* the shape of an answer on stdout once log lines (starting with "![") are set aside *)
(* nlines: non-log lines; status: "YES" | "NO" | ""; wline: a witness line is present *)
ShapeOK(inv, nlines, status, wline, promisedCert) ==
  IF inv.kind = "SE" THEN nlines = 1 /\ ((wline /\ status = "") \/ (~wline /\ status = "NO"))
  ELSE /\ status \in {"YES", "NO"}
       /\ IF inv.cert THEN wline = promisedCert /\ nlines = (IF wline THEN 2 ELSE 1)
                      ELSE ~wline /\ nlines = 1
=============================================================================
