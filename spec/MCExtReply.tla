----------------------------- MODULE MCExtReply -----------------------------
EXTENDS ExtReply, Json, SequencesExt
(* replies up to MaxLines lines: the parser conforms to the property's classification; each reply is exported *)
CONSTANT MaxLines
VARIABLE reply
RInit == reply = <<>>
RNext == Len(reply) < MaxLines /\ \E k \in LineKinds : reply' = Append(reply, k)
RSpec == RInit /\ [][RNext]_reply
ParserConforms == Conforms(Classify(reply), Parse(reply))
ExportReply == PrintT(<<"REPLAY", ToJson([lines |-> reply])>>)
=============================================================================
