------------------------------ MODULE MCStatic ------------------------------
EXTENDS Static
(* reachability witnesses (expected to be violated: used to show that the interesting branches are exercised) *)
NeverPhase2 == phase = 1
NeverSinglePreferredShortcut == ~(mode = "ID" /\ res.k = "set" /\ nPref = 1 /\ res.v # Grounded(af))
NeverShortcut == ~(mode = "DSshort" /\ res.k = "no" /\ st = "Inter")
=============================================================================
