-------------------------------- MODULE Sat --------------------------------
(***************************************************************************)
(* S5: the incremental SAT-solver contract of the SatSolver trait (C15).   *)
(* State: the clauses added so far and the highest variable declared       *)
(* (occurring in a clause, reserved, or assumed).  A solve call returns    *)
(* ANY model of clauses /\ assumptions (the oracle non-determinism the     *)
(* second-level procedures are exposed to), or "unsat" iff none exists;    *)
(* assumptions are not retained.                                           *)
(***************************************************************************)
EXTENDS Cnf, TLC
CONSTANTS NVars, Clauses        \* Clauses: the universe of clauses that may be added
VARIABLES cls, declared, last
vars == <<cls, declared, last>>

Lits == {l \in (-NVars)..NVars : l # 0}
(* contradictory assumptions (x and -x) are legal: no model honours them, so the answer is "unsat" for that call and for that call only *)
AssumptionSets == {A \in SUBSET Lits : Cardinality(A) <= 2}
Max2(a, b) == IF a > b THEN a ELSE b

Init == cls = {} /\ declared = 0 /\ last = <<"none">>
AddClause(c) == cls' = cls \cup {c} /\ declared' = Max2(declared, MaxVarOf({c})) /\ last' = <<"add", c>>
Reserve(k) == declared' = Max2(declared, k) /\ UNCHANGED cls /\ last' = <<"reserve", k>>
Solve(A) ==
  LET n == Max2(declared, MaxVarOf({A}))
      ms == ModelsOf(cls \cup {{l} : l \in A}, n)
  IN /\ declared' = n /\ UNCHANGED cls
     /\ IF ms = {} THEN last' = <<"unsat", A>> ELSE \E m \in ms : last' = <<"sat", A, m>>
Next == (\E c \in Clauses : AddClause(c)) \/ (\E k \in 1..NVars : Reserve(k)) \/ (\E A \in AssumptionSets : Solve(A))
Spec == Init /\ [][Next]_vars

(* what the contract promises about the last call *)
ModelHonoursAll == last[1] = "sat" => /\ \A c \in cls : SatClause(last[3], c)
                                      /\ \A l \in last[2] : LitTrue(last[3], l)
                                      /\ DOMAIN last[3] = 1..declared
UnsatOnlyIfNone == last[1] = "unsat" => ModelsOf(cls \cup {{l} : l \in last[2]}, Max2(declared, 1)) = {}
(* assumptions hold for one call only: the solver state is exactly the clause set *)
AssumptionsNotRetained == [][(\E A \in AssumptionSets : Solve(A)) => cls' = cls]_vars
=============================================================================
