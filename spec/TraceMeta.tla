----------------------------- MODULE TraceMeta -----------------------------
(* Judge of C11 events: pairs (base run, transformed run) and cross-semantics consistency of one framework's answers *)
EXTENDS Meta, TLC, Json, IOUtils, SequencesExt
Rec == ndJsonDeserialize(IOEnv.TRACE)
VARIABLE l
Report(name, ok) == IF ok THEN TRUE ELSE PrintT(<<"T1", l, name>>)
Pairs(seq) == {<<p[1], p[2]>> : p \in ToSet(seq)}
StatusOf(e, sem, kind) == LET S == {s \in ToSet(e.statuses) : s.sem = sem /\ s.kind = kind} IN
                          IF S = {} THEN <<>> ELSE (CHOOSE s \in S : TRUE).st
Has(e, sem) == StatusOf(e, sem, "DC") # <<>>
NoPanic(seq) == \A i \in 1..Len(seq) : seq[i] # "panic"

JudgeCross(e) ==
  LET af == [args |-> 1..e.n, att |-> Pairs(e.att)]
      atk == AtkMap(af)
      gr == ToSet(e.gr)  pr == ToSet(e.pr)  id == ToSet(e.id)  st == ToSet(e.st)
      k == Len(e.args)
      Dc(s) == StatusOf(e, s, "DC")   Ds(s) == StatusOf(e, s, "DS")
  IN
  /\ Report("C11:returns", ~e.panic /\ \A s \in ToSet(e.statuses) : NoPanic(s.st))
  /\ Report("C11:grounded_is_complete", CompleteFast(af, atk, gr))
  /\ e.has_pr => Report("C11:gr_within_pr", gr \subseteq pr /\ AdmissibleFast(af, atk, pr))
  /\ e.has_id => Report("C11:gr_within_id_within_pr", gr \subseteq id /\ id \subseteq pr /\ AdmissibleFast(af, atk, id))
  /\ e.has_st => Report("C11:stable_is_stable", StableFast(af, st))
  /\ e.has_sst => Report("C11:semistable_is_complete", CompleteFast(af, atk, ToSet(e.sst)))
  /\ e.has_stg => Report("C11:stage_is_conflict_free", CFFast(af, ToSet(e.stg)))
  /\ Has(e, "PR") => Report("C11:dc_co_equals_dc_pr", Dc("CO") = Dc("PR"))
  /\ Report("C11:ds_co_is_grounded", \A i \in 1..k : (Ds("CO")[i] = "yes") = (e.args[i] \in gr))
  /\ Report("C11:dc_gr_is_grounded", \A i \in 1..k : (Dc("GR")[i] = "yes") = (e.args[i] \in gr))
  /\ \A s \in {"GR", "CO", "PR", "SST", "STG", "ID"} : Has(e, s) =>
        Report("C11:skeptical_implies_credulous", \A i \in 1..k : Ds(s)[i] = "yes" => Dc(s)[i] = "yes")
  /\ e.has_st => Report("C11:skeptical_implies_credulous", \A i \in 1..k : Ds("ST")[i] = "yes" => Dc("ST")[i] = "yes")
  /\ ~e.has_st => Report("C11:no_stable_extension", \A i \in 1..k : Ds("ST")[i] = "yes" /\ Dc("ST")[i] = "no")
  /\ (e.has_st /\ Has(e, "SST")) => Report("C11:st_sst_stg_coincide",
        /\ Dc("ST") = Dc("SST") /\ Dc("ST") = Dc("STG") /\ Ds("ST") = Ds("SST") /\ Ds("ST") = Ds("STG"))

Init == l = 1
Next == /\ l <= Len(Rec) /\ l' = l + 1
        /\ LET e == Rec[l] IN
           CASE e.ev = "pair" -> Report("C11:" \o e.rel, e.other = Expected(e.rel, e.sem, e.kind, e.base) /\ NoPanic(e.base))
             [] e.ev = "cross" -> JudgeCross(e)
             [] OTHER -> TRUE
Spec == Init /\ [][Next]_l
Consumed == TLCGet("stats").diameter - 1 = Len(Rec) \/ PrintT(<<"UNCONSUMED", TLCGet("stats").diameter, Len(Rec)>>)
=============================================================================
