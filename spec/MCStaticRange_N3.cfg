CONSTANTS N = 3
  Modes = {"SE", "DC", "DS"}
  Bases = {"CO", "CF"}
  ExactRange = FALSE
  Faults = TRUE
SPECIFICATION Spec
CHECK_DEADLOCK FALSE
INVARIANT Correct
INVARIANT FaultNeverAnswers
INVARIANT CallBound
PROPERTY Terminates
