------------------------------ MODULE Compose ------------------------------
(***************************************************************************)
(* S2, composition over connected components: how every static solver     *)
(* assembles the answer to an acceptance query with certificate on a       *)
(* framework with several components.                                      *)
(*   1. merged_connected_components_of: the union Q of the components of   *)
(*      the queried arguments is solved by the search procedures (Static,  *)
(*      StaticRange: here ANY correct answer on Restrict(af, Q));          *)
(*   2. next_connected_component: the certificate is completed on every    *)
(*      other component -- grounded extension for CO (DC-CO, DC-PR), an    *)
(*      extension of the component for PR / SST / STG, its ideal           *)
(*      extension for ID; for ST every component is solved, and the whole  *)
(*      query is refused (accepted, for skeptical) when one has none.      *)
(* Invariant: the status is Cred/Skep on the WHOLE framework and the       *)
(* assembled certificate is an extension of the whole framework.           *)
(* CompletionRule = "grounded_everywhere" is a defective variant (kept to  *)
(* show that TLC rejects it): it completes ID / PR certificates with the   *)
(* grounded extension of the other components.                             *)
(***************************************************************************)
EXTENDS Dung, TLC, FiniteSets
CONSTANTS N, CompletionRule
Args == 1..N
VARIABLES af, sem, cred, A, done, status, cert, hasCert
vars == <<af, sem, cred, A, done, status, cert, hasCert>>

Init == /\ af \in {[args |-> Args, att |-> R] : R \in SUBSET (Args \X Args)}
        /\ sem \in {"CO", "PR", "ST", "SST", "STG", "ID"} /\ cred \in BOOLEAN
        /\ A \in {{a} : a \in Args} \cup {{a, b} : a \in Args, b \in Args}
        /\ done = FALSE /\ status = FALSE /\ cert = {} /\ hasCert = FALSE

Q == UNION {ComponentOf(af, a) : a \in A}
Others == {c \in Components(af) : c \cap Q = {}}
CertSem == IF sem = "PR" /\ cred THEN "CO" ELSE sem           \* DC-PR is answered by the complete solver
(* what the completion step produces on an untouched component *)
CompletionsOf(c) ==
  LET sub == RestrictAF(af, c) IN
  IF CompletionRule = "grounded_everywhere" THEN {Grounded(sub)}
  ELSE CASE CertSem = "CO" -> {Grounded(sub)}
         [] CertSem = "ID" -> {Ideal(sub)}
         [] OTHER -> Fam(sub, CertSem)
RECURSIVE Unions(_)
Unions(cs) == IF cs = {} THEN {{}} ELSE LET c == CHOOSE c \in cs : TRUE IN
              {X \cup Y : X \in CompletionsOf(c), Y \in Unions(cs \ {c})}

Answer ==
  /\ ~done /\ done' = TRUE
  /\ LET sub == RestrictAF(af, Q)
         fm == Fam(sub, CertSem)
         famQ == Fam(sub, sem)
         accQ == IF cred THEN CredIn(famQ, A) ELSE SkepIn(famQ, A)
         witnesses == IF cred THEN {E \in fm : E \cap A # {}} ELSE {E \in famQ : E \cap A = {}}
         promised == IF cred THEN accQ ELSE ~accQ
         completions == Unions(Others)
     IN IF sem = "ST" /\ (famQ = {} \/ completions = {})
        THEN status' = ~cred /\ hasCert' = FALSE /\ cert' = {}          \* some component has no stable extension
        ELSE /\ status' = accQ
             /\ IF promised THEN \E E \in witnesses : \E R \in completions : cert' = E \cup R /\ hasCert' = TRUE
                ELSE hasCert' = FALSE /\ cert' = {}
  /\ UNCHANGED <<af, sem, cred, A>>
Spec == Init /\ [][Answer]_vars

Whole == Fam(af, sem)
StatusIsGlobal == done => status = (IF cred THEN CredIn(Whole, A) ELSE SkepIn(Whole, A))
CertificateIsGlobal == (done /\ hasCert) => /\ cert \in Fam(af, CertSem)
                                            /\ (IF cred THEN cert \cap A # {} ELSE cert \cap A = {})
CertificateWhenPromised == done => hasCert = (IF cred THEN status ELSE ~status)
=============================================================================
