---------------------------- MODULE TraceStatic ----------------------------
(***************************************************************************)
(* Judge of traces recorded from the real static solvers (C01-C04, C06,    *)
(* C07, C17, C18).  Monitor style: every event is fully logged, the spec   *)
(* carries the framework and the reference families of its connected       *)
(* components forward, and evaluates every property-level predicate at     *)
(* every event.  A failing predicate is reported as a line                 *)
(*      <<"T1", line, "Cxx:name">>                                         *)
(* and the trace is always consumed to its end (POSTCONDITION Consumed).   *)
(* Families are evaluated on the grounded reduct (Meta!FamByReduct: every   *)
(* extension is the grounded extension plus an extension of the framework  *)
(* restricted to the undecided arguments; MCDung ReductTheorem, TLAPS      *)
(* proofs/ReductLemma) and per weakly connected component of that reduct   *)
(* (theorem Product of MCDung, TLAPS proofs/ProductLemma).  Stage          *)
(* extensions need not contain the grounded extension: their family is     *)
(* evaluated on the components of the whole framework.                     *)
(***************************************************************************)
EXTENDS Meta, Cli, TLC, Json, IOUtils, SequencesExt, FiniteSetsExt
Rec == ndJsonDeserialize(IOEnv.TRACE)

VARIABLES l, af, ids, comps, famc, gr, dead, scomps, sfamc, bc
vars == <<l, af, ids, comps, famc, gr, dead, scomps, sfamc, bc>>

Init == l = 1 /\ af = EmptyAF /\ ids = {} /\ comps = {} /\ famc = <<>> /\ gr = {} /\ dead = {} /\ scomps = {} /\ sfamc = <<>> /\ bc = [key |-> <<>>]

Pairs(seq) == {<<p[1], p[2]>> : p \in ToSet(seq)}

(* ---- component-wise reference values ---- *)
(* gr = grounded extension, dead = what it defeats, comps = components of the reduct; scomps / sfamc = components of the whole framework *)
(* and their stage extensions                                                                                                       *)
InFam(E, s)  == IF s = "STG" THEN E \subseteq af.args /\ \A c \in scomps : (E \cap c) \in sfamc[c]
                ELSE E \subseteq af.args /\ E \cap (gr \cup dead) = gr /\ \A c \in comps : (E \cap c) \in famc[c][s]
FamEmpty(s)  == IF s = "STG" THEN \E c \in scomps : sfamc[c] = {} ELSE \E c \in comps : famc[c][s] = {}
CredC(s, A)  == IF s = "STG" THEN ~FamEmpty(s) /\ \E c \in scomps : \E E \in sfamc[c] : E \cap A # {}
                ELSE ~FamEmpty(s) /\ (A \cap gr # {} \/ \E c \in comps : \E E \in famc[c][s] : E \cap A # {})
SkepC(s, A)  == IF s = "STG" THEN FamEmpty(s) \/ \E c \in scomps : \A E \in sfamc[c] : E \cap A # {}
                ELSE FamEmpty(s) \/ A \cap gr # {} \/ \E c \in comps : \A E \in famc[c][s] : E \cap A # {}

Report(name, ok) == IF ok THEN TRUE ELSE PrintT(<<"T1", l, name>>)

ExtSet(o) == {p[1] : p \in ToSet(o.ext)}
WellFormedExt(o) == /\ Len(o.ext) = Cardinality(ToSet(o.ext))          \* each member once
                    /\ Pairs(o.ext) \subseteq ids                       \* same label and id as in the caller's framework

(* the semantics whose family a certificate must belong to *)
CertSem(e) == IF e.sem = "PR" /\ e.kind = "DC" THEN "CO" ELSE e.sem

JudgeSE(e) ==
  LET o == e.out IN
  /\ Report("C18:terminates", ~o.capped)
  /\ Report("C01:returns", o.panic = "" \/ o.capped)
  /\ o.panic = "" =>
       /\ Report("C01:none_iff_none", o.has_ext \/ FamEmpty(e.sem))
       /\ o.has_ext => /\ Report("C01:is_extension", InFam(ExtSet(o), e.sem))
                       /\ Report("C01:well_formed", WellFormedExt(o))

JudgeAcc(e) ==
  LET o == e.out
      A == ToSet(e.args)
      cred == e.kind = "DC"
      P == IF Len(e.args) > 1 THEN "C07" ELSE IF cred THEN "C02" ELSE "C03"
      ref == IF cred THEN CredC(e.sem, A) ELSE SkepC(e.sem, A)
      E == ExtSet(o)
  IN
  /\ Report("C18:terminates", ~o.capped)
  /\ Report(P \o ":returns", o.panic = "" \/ o.capped)
  /\ o.panic = "" =>
       /\ Report(P \o ":status", (o.st = "yes") = ref)
       /\ ~e.cert => Report("C04:no_cert_unasked", ~o.has_ext)
       /\ e.cert =>
            LET promised == IF cred THEN o.st = "yes" ELSE o.st = "no" IN
            /\ Report("C04:cert_iff_promised", o.has_ext = promised)
            /\ o.has_ext =>
                 /\ Report("C04:cert_is_extension", InFam(E, CertSem(e)))
                 /\ Report("C04:cert_witnesses", IF cred THEN E \cap A # {} ELSE E \cap A = {})
                 /\ Report("C04:cert_well_formed", WellFormedExt(o))

(* C17: a failing backend never becomes an answer *)
JudgeFault(e) ==
  LET o == e.out IN
  \* events in which no fault was injected (the query made no SAT call) are vacuous; they are counted by the driver
  /\ Report("C17:fault_aborts", o.faulted => (o.panic # "" /\ o.st = "none" /\ ~o.has_ext))
  \* the failure came from the exchange with an external solver process (missing / truncated / garbled reply at that call): C16 as well
  /\ ("how" \in DOMAIN e /\ Len(e.how) > 8 /\ SubSeq(e.how, 1, 8) = "process:") =>
       Report("C16:failed_exchange_is_not_a_result", o.faulted => (o.panic # "" /\ o.st = "none" /\ ~o.has_ext))

(* C18: bound on the number of SAT calls per component, no candidate examined twice *)
CcAF(e) == [args |-> ToSet(e.labels), att |-> Pairs(e.att)]
(* the sizes of the base families of the component the last `cc` event was about: consecutive events are about the same few components, *)
(* so the enumerations are carried in the state (bc) instead of being redone for every event                                            *)
CcKey(e) == <<ToSet(e.labels), Pairs(e.att)>>
CcCounts(e) == LET caf == CcAF(e) IN
  [key |-> CcKey(e), CF |-> Cardinality(CF(caf)), ADM |-> Cardinality(ADM(caf)), CO |-> Cardinality(FamFast(caf, "CO")), PR |-> Cardinality(FamFast(caf, "PR"))]
Bound(e, c) ==
  LET n == Cardinality(ToSet(e.labels)) IN
  CASE e.sem \in {"CO", "ST"} -> 2
    [] e.sem = "PR"  -> c[e.base] + c.PR + 1
    [] e.sem = "ID"  -> 2 * c[e.base] + c.PR + 2
    [] e.sem \in {"SST", "STG"} -> (n + 2) * c[e.base] + 3
NoRepeat(seq) == Len(seq) = Cardinality(ToSet(seq))
JudgeCc(e, c) ==
  /\ (e.decoded \/ e.sem \in {"CO", "ST"}) => Report("C18:bound", e.calls <= Bound(e, c))
  /\ (e.decoded /\ e.sem = "PR") => Report("C18:no_repeat", NoRepeat(e.returned))

JudgeFrame(e) == Report("C06:framework_unchanged", e.same)

(* C06: all configurations / positions / repetitions of one query agree *)
JudgeAgree(e) == Report("C06:agree", Cardinality(ToSet(e.statuses)) <= 1)

(* C05: one run of a real binary; e.inv is the abstract invocation (MCCli), Outcome / ShapeOK come from Cli.tla *)
JudgeCli(e) ==
  LET inv == e.inv
      out == Outcome(inv)
      A == ToSet(e.args)
      cred == inv.kind = "DC"
      ref == IF cred THEN CredC(e.sem, A) ELSE SkepC(e.sem, A)
      promised == IF cred THEN ref ELSE ~ref
      W == ToSet(e.wargs)
      cs == IF e.sem = "PR" /\ cred THEN "CO" ELSE e.sem
  IN
  /\ Report("C05:terminates", ~e.timeout)
  \* an error message is not an answer: no status line and no witness line (error text, also clap's multi-line usage, is allowed)
  /\ (out = "refusal" \/ (out = "answer_or_refusal" /\ e.exit # 0)) =>
                        /\ Report("C05:error_exit_status_nonzero", e.exit # 0)
                        /\ Report("C05:error_prints_no_answer", e.status = "" /\ ~e.wline)
  /\ (out \in {"answer", "answer_or_refusal"} /\ e.exit = 0 /\ inv.log = "off") => Report("C05:nothing_but_the_answer_when_logging_is_off", e.nlog = 0)
  /\ (out = "answer" \/ (out = "answer_or_refusal" /\ e.exit = 0)) =>
       /\ Report("C05:answer_exit_status_zero", e.exit = 0)
       /\ e.exit = 0 =>
            /\ Report("C05:answer_shape", ~e.malformed /\ ShapeOK(inv, e.nlines, e.status, e.wline, promised))
            /\ (~e.malformed /\ inv.kind = "SE") =>
                 /\ Report("C05:answer_content", IF e.wline THEN InFam(W, e.sem) /\ Len(e.wargs) = Cardinality(W) ELSE FamEmpty(e.sem))
                 \* C01 at its command-line observation point
                 /\ Report("C01:printed_extension", IF e.wline THEN InFam(W, e.sem) /\ Len(e.wargs) = Cardinality(W) ELSE FamEmpty(e.sem))
            /\ (~e.malformed /\ inv.kind # "SE") =>
                 /\ Report("C05:answer_content", (e.status = "YES") = ref)
                 \* C02 / C03 at their command-line observation point (first stdout line)
                 /\ Report((IF cred THEN "C02" ELSE "C03") \o ":printed_status", (e.status = "YES") = ref)
                 /\ e.wline => Report("C05:answer_content", /\ InFam(W, cs) /\ Len(e.wargs) = Cardinality(W)
                                                            /\ (IF cred THEN W \cap A # {} ELSE W \cap A = {}))
                 \* C04 at its second observation point: the `w` line printed by the binaries
                 /\ inv.cert => Report("C04:printed_certificate_iff_promised", e.wline = promised)
                 /\ e.wline => Report("C04:printed_certificate", /\ InFam(W, cs) /\ Len(e.wargs) = Cardinality(W) /\ W \subseteq af.args
                                                                /\ (IF cred THEN W \cap A # {} ELSE W \cap A = {}))
(* C05 on instances with thousands of arguments: exit status, shape, and polynomial necessary conditions on the printed witness *)
JudgeCliBig(e) ==
  LET inv == e.inv
      W == ToSet(e.wargs)
      A == ToSet(e.args)
      atk == AtkMap(af)
      cs == IF e.sem = "PR" /\ inv.kind = "DC" THEN "CO" ELSE e.sem
      necessary == CASE cs \in {"GR", "CO", "SST"} -> CompleteFast(af, atk, W)
                     [] cs \in {"PR", "ID"} -> AdmissibleFast(af, atk, W)
                     [] cs = "ST" -> StableFast(af, W)
                     [] cs = "STG" -> CFFast(af, W)
  IN
  /\ Report("C05:terminates", ~e.timeout)
  /\ Report("C05:answer_exit_status_zero", e.exit = 0)
  /\ e.exit = 0 =>
       /\ Report("C05:answer_shape", ~e.malformed /\ (IF inv.kind = "SE" THEN e.nlines = 1 ELSE e.status \in {"YES", "NO"} /\ e.nlines = (IF e.wline THEN 2 ELSE 1)))
       /\ (~e.malformed /\ e.wline) =>
            Report("C05:answer_content", /\ W \subseteq af.args /\ Len(e.wargs) = Cardinality(W) /\ necessary
                                         /\ (inv.kind = "DC" => W \cap A # {}) /\ (inv.kind = "DS" => W \cap A = {}))
       /\ (~e.malformed /\ e.wline /\ inv.kind # "SE") =>
            Report("C04:printed_certificate", /\ W \subseteq af.args /\ Len(e.wargs) = Cardinality(W) /\ necessary
                                              /\ (inv.kind = "DC" => W \cap A # {}) /\ (inv.kind = "DS" => W \cap A = {}))
       /\ inv.log = "off" => Report("C05:nothing_but_the_answer_when_logging_is_off", e.nlog = 0)

(* C17 at the command line: the external solver failed at a call that was reached => non-zero exit status and no answer on stdout *)
JudgeCliFault(e) ==
  /\ Report("C17:cli_terminates", ~e.timeout)
  /\ e.faulted => /\ Report("C17:cli_fault_exit_status_nonzero", e.exit # 0)
                  /\ Report("C17:cli_fault_prints_no_answer", e.status = "" /\ ~e.wline)

JudgeProblems(e) == Report("C05:problems_listed", e.exit = 0 /\ ToSet(e.listed) = Problems /\ Len(e.listed) = 21)

Next ==
  /\ l <= Len(Rec)
  /\ l' = l + 1
  /\ LET e == Rec[l] IN
     IF e.ev = "af" THEN
        /\ af' = [args |-> ToSet(e.args), att |-> Pairs(e.att)]
        /\ ids' = Pairs(e.ids)
        \* "big" instances (thousands of arguments, C05): families are out of reach, only necessary conditions are judged
        /\ gr' = IF "big" \in DOMAIN e THEN {} ELSE GroundedFast(af')
        /\ dead' = AttackedBy(af', gr')
        /\ comps' = IF "big" \in DOMAIN e THEN {} ELSE Components(RestrictAF(af', af'.args \ (gr' \cup dead')))
        /\ famc' = IF "big" \in DOMAIN e THEN <<>>
                   ELSE [c \in comps' |-> [s \in ToSet(e.sems) \ {"STG"} |-> FamFast(RestrictAF(af', c), s)]]
        /\ scomps' = IF "STG" \in ToSet(e.sems) THEN Components(af') ELSE {}
        /\ sfamc' = [c \in scomps' |-> FamFast(RestrictAF(af', c), "STG")]
        /\ UNCHANGED bc
     ELSE IF e.ev = "cc" THEN
        /\ UNCHANGED <<af, ids, comps, famc, gr, dead, scomps, sfamc>>
        /\ bc' = IF bc.key = CcKey(e) THEN bc ELSE CcCounts(e)
        /\ JudgeCc(e, bc')
     ELSE
        /\ UNCHANGED bc
        /\ UNCHANGED <<af, ids, comps, famc, gr, dead, scomps, sfamc>>
        /\ CASE e.ev = "q" -> IF e.kind = "SE" THEN JudgeSE(e) ELSE JudgeAcc(e)
             [] e.ev = "fault" -> JudgeFault(e)
             [] e.ev = "frame" -> JudgeFrame(e)
             [] e.ev = "agree" -> JudgeAgree(e)
             [] e.ev = "cli" -> IF "big" \in DOMAIN e THEN JudgeCliBig(e) ELSE JudgeCli(e)
             [] e.ev = "problems" -> JudgeProblems(e)
             [] e.ev = "clifault" -> JudgeCliFault(e)
             [] OTHER -> TRUE

Spec == Init /\ [][Next]_vars

Consumed == TLCGet("stats").diameter - 1 = Len(Rec) \/ PrintT(<<"UNCONSUMED", TLCGet("stats").diameter, Len(Rec)>>)
=============================================================================
