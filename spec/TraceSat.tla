------------------------------ MODULE TraceSat ------------------------------
(***************************************************************************)
(* Judge of traces recorded from SatSolver objects (C15; header events of  *)
(* C16).  Carries the clause set of Sat.tla itself and checks every solve  *)
(* result against it: a model satisfies all clauses added so far and the   *)
(* assumptions of that call; "unsat" only if TLC's brute force finds no    *)
(* model; n_vars() covers every variable used or reserved; the model can   *)
(* be queried for every declared variable.                                 *)
(***************************************************************************)
EXTENDS Cnf, TLC, Json, IOUtils, SequencesExt
Rec == ndJsonDeserialize(IOEnv.TRACE)
VARIABLES l, cls, declared
Report(name, ok) == IF ok THEN TRUE ELSE PrintT(<<"T1", l, name>>)
Max2(a, b) == IF a > b THEN a ELSE b

Init == l = 1 /\ cls = {} /\ declared = 0

JudgeSolve(e) ==
  LET A == ToSet(e.assumps)
      n == Max2(declared, MaxVarOf({A}))
      m == ToSet(e.model)
      all == cls \cup {{x} : x \in A}
  IN
  /\ Report("C15:decides", e.res \in {"sat", "unsat"})
  /\ e.res = "sat" =>
       /\ Report("C15:model_satisfies_clauses", Consistent(m) /\ \A c \in cls : LitsSatisfy(m, c))
       /\ Report("C15:model_satisfies_assumptions", A \subseteq m)
       /\ Report("C15:declared_vars_queryable", e.query_ok /\ e.nvars >= n)
  \* brute force up to 12 variables; beyond, "unsat" is cross-checked between the backends (pair events)
  /\ (e.res = "unsat" /\ n <= 12) => Report("C15:unsat_only_if_none", ModelsOf(all, Max2(n, 1)) = {})

Next ==
  /\ l <= Len(Rec)
  /\ l' = l + 1
  /\ LET e == Rec[l] IN
     CASE e.ev = "reset" -> cls' = {} /\ declared' = 0
       [] e.ev = "add" -> cls' = cls \cup {ToSet(e.lits)} /\ declared' = Max2(declared, MaxVarOf({ToSet(e.lits)}))
       [] e.ev = "reserve" -> cls' = cls /\ declared' = Max2(declared, e.k)
       [] e.ev = "solve" -> JudgeSolve(e) /\ UNCHANGED <<cls, declared>>   \* variables only assumed are declared for that call only
       [] e.ev = "pair" -> Report("C15:backends_give_same_verdict", Cardinality(ToSet(e.verdicts)) = 1 /\ ToSet(e.verdicts) \subseteq {"sat", "unsat"})
                           /\ UNCHANGED <<cls, declared>>
       [] OTHER -> UNCHANGED <<cls, declared>>
Spec == Init /\ [][Next]_<<l, cls, declared>>
Consumed == TLCGet("stats").diameter - 1 = Len(Rec) \/ PrintT(<<"UNCONSUMED", TLCGet("stats").diameter, Len(Rec)>>)
=============================================================================
