CONSTANTS N = 3
  Modes = {"SE", "DS", "DSshort"}
  Bases = {"CO", "ADM"}
  Faults = TRUE
SPECIFICATION Spec
CHECK_DEADLOCK FALSE
INVARIANT Correct
INVARIANT FaultNeverAnswers
INVARIANT CallBound
INVARIANT NoRepeat
PROPERTY Terminates
