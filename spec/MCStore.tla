------------------------------ MODULE MCStore ------------------------------
(* exhaustive exploration of the abstract store; exports one shortest history per distinct state  *)
(* (REPLAY lines): these are the behaviours replayed, edge by edge, into the real AAFramework.     *)
EXTENDS Store, Json, SequencesExt
CONSTANT MaxIds
VARIABLE hist
Init2 == Init /\ hist = <<>>
Next2 == \E o \in Ops : s' = Step(s, o).st /\ hist' = Append(hist, o) /\ s' # s
Spec2 == Init2 /\ [][Next2]_<<s, hist>>
View == s
Bound == s.nextId <= MaxIds
Export == PrintT(<<"REPLAY", ToJson([hist |-> hist])>>)
IdsStable2 == [][ /\ s'.nextId >= s.nextId
                  /\ \A l \in DOMAIN s.live \cap DOMAIN s'.live : s'.live[l] = s.live[l]
                  /\ \A l \in DOMAIN s'.live \ DOMAIN s.live : s'.live[l] = s.nextId ]_<<s, hist>>
=============================================================================
