CONSTANTS Labels = {1, 2, 3, 4}
  FNum = 3
  FDen = 2
  MaxOps = 7
SPECIFICATION Spec
CHECK_DEADLOCK FALSE
INVARIANT SlotsConsistent
INVARIANT NeverBeyondReserved
