CONSTANTS Labels = {1, 2}
  MaxIds = 3
  MaxBuffer = 2
  Sem = "CO"
  StaleCertificate = FALSE
  ReissueRule = "forget_attacked_by_removed"
SPECIFICATION Spec
CHECK_DEADLOCK FALSE
INVARIANT AnswersAndCertificatesCorrect
INVARIANT SnapshotsCurrent
INVARIANT ModelsAreExtensions
INVARIANT CacheOnlyCurrent
