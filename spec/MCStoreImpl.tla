---------------------------- MODULE MCStoreImpl ----------------------------
EXTENDS StoreImpl
CONSTANTS MaxIds, MaxAttVec
Bound == Len(c.labels) <= MaxIds /\ Len(c.attacks) <= MaxAttVec
=============================================================================
