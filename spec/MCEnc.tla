------------------------------- MODULE MCEnc -------------------------------
EXTENDS Enc, TLC
CONSTANT NMax
VARIABLES n, k, att
Init == n \in 0..NMax /\ k = 0 /\ att = {}
AddRow == /\ k < n /\ \E T \in SUBSET (1..n) : att' = att \cup {<<k + 1, t>> : t \in T}
          /\ k' = k + 1 /\ UNCHANGED n
Spec == Init /\ [][AddRow]_<<n, k, att>>
af == [args |-> 1..n, att |-> att]
Encoders == {"aux_cf", "aux_adm", "aux_co", "exp_cf", "exp_co", "hybrid", "stable"}
AllCorrect == (k = n) => \A enc \in Encoders : \A range \in (IF enc = "stable" THEN {FALSE} ELSE BOOLEAN) : EncodingCorrect(af, enc, range)
=============================================================================
