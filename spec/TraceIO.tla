------------------------------ MODULE TraceIO ------------------------------
(***************************************************************************)
(* Judge of reader / writer events (C13, C14).  `file` events are abstract *)
(* files exported by MCReader, concretised (LF, CRLF, missing final        *)
(* newline, surrounding spaces) and read by the real readers: the verdict  *)
(* is Reader.tla's.  `total` events only require that the reader returned. *)
(***************************************************************************)
EXTENDS Reader, Json, IOUtils, SequencesExt
Rec == ndJsonDeserialize(IOEnv.TRACE)
VARIABLE l
Report(name, ok) == IF ok THEN TRUE ELSE PrintT(<<"T1", l, name>>)
Pairs(seq) == {<<p[1], p[2]>> : p \in ToSet(seq)}

JudgeFile(e) ==
  LET v == IF e.fmt = "iccma" THEN IccmaVerdict(e.lines) ELSE ApxVerdict(e.lines) IN
  /\ Report("C13:total", e.res # "panic")
  /\ (e.res # "panic" /\ v[1] = "accept") =>
       /\ Report("C13:wellformed_accepted", e.res = "ok")
       /\ e.res = "ok" =>
            /\ Report("C13:arguments_in_declaration_order",
                      IF e.fmt = "iccma" THEN e.args = [i \in 1..Cardinality(v[2]) |-> i] ELSE e.args = v[2])
            /\ Report("C13:exact_attacks", Pairs(e.att) = v[3])
            /\ Report("C13:ids_follow_declaration", e.ids_ok)
  /\ (e.res # "panic" /\ v[1] = "reject") => Report("C13:illformed_rejected", e.res = "err")
  \* undecodable comment: rejected, or read as exactly the declared framework -- never as some other framework
  /\ (e.res = "ok" /\ v[1] = "accept_or_reject") =>
       /\ Report("C13:not_read_as_another_framework", e.args = [i \in 1..Cardinality(v[2]) |-> i] /\ Pairs(e.att) = v[3])

ArgStrVerdict(e) ==
  IF e.fmt = "iccma" THEN IccmaArgVerdict(e.kind)
  ELSE CASE e.kind = "one" -> <<"ok", 0>> [] e.kind = "three" -> <<"ok", 2>> [] OTHER -> <<"err">>
JudgeArgStr(e) ==
  LET v == ArgStrVerdict(e) IN
  /\ Report("C13:total", e.res # "panic")
  /\ e.res # "panic" => Report("C13:query_argument_lookup", IF v[1] = "ok" THEN e.res = "ok" /\ e.id = v[2] ELSE e.res = "err")

(* C14: response writers *)
JudgeResp(e) ==
  /\ Report("C14:extension_one_line", e.nlines = 1 /\ e.endnl)
  /\ Report("C14:extension_reads_back", /\ e.head = (IF e.writer = "iccma" THEN "w" ELSE "[]")
                                        /\ e.items = e.labels)
  /\ Report("C14:extension_nothing_else", e.exact)
JudgeStatus(e) == Report("C14:status_lines", e.text = (IF e.status THEN "YES$" ELSE "NO$"))
JudgeNoExt(e) == Report("C14:no_extension_line", e.text = "NO$")

Init == l = 1
Next ==
  /\ l <= Len(Rec)
  /\ l' = l + 1
  /\ LET e == Rec[l] IN
     CASE e.ev = "file" -> JudgeFile(e)
       [] e.ev = "argstr" -> JudgeArgStr(e)
       [] e.ev = "total" -> Report("C13:total", e.res # "panic")
       [] e.ev = "bigfile" -> /\ Report("C13:total", e.res # "panic")
                              /\ e.res # "panic" => /\ Report("C13:wellformed_accepted", e.res = "ok")
                                                    /\ e.res = "ok" => /\ Report("C13:arguments_in_declaration_order", e.args_ok /\ e.ids_ok)
                                                                       /\ Report("C13:exact_attacks", e.atts_ok)
       [] e.ev = "bigrt" -> /\ Report("C14:framework_reads_back", e.res = "ok")
                            /\ e.res = "ok" => /\ Report("C14:same_labels_same_order", e.args_ok)
                                                /\ Report("C14:same_attacks", e.atts_ok /\ e.nodup)
                                                /\ Report("C14:one_declaration_per_line", e.lines_ok)
       [] e.ev = "checkcmd" -> LET v == IF e.fmt = "iccma" THEN IccmaVerdict(e.lines) ELSE ApxVerdict(e.lines) IN
                               /\ Report("C13:total", ~e.timeout /\ e.exit # 101)            \* 101 = panic of the binary
                               /\ v[1] = "accept" => Report("C13:wellformed_accepted", e.exit = 0)
                               /\ v[1] = "reject" => Report("C13:illformed_rejected", e.exit # 0)
       [] e.ev = "resp" -> JudgeResp(e)
       [] e.ev = "status" -> JudgeStatus(e)
       [] e.ev = "noext" -> JudgeNoExt(e)
       [] OTHER -> TRUE
Spec == Init /\ [][Next]_l
Consumed == TLCGet("stats").diameter - 1 = Len(Rec) \/ PrintT(<<"UNCONSUMED", TLCGet("stats").diameter, Len(Rec)>>)
=============================================================================
