------------------------------ MODULE ExtReply ------------------------------
(***************************************************************************)
(* C16, parts 2 and 3.  The reply of an external solver is a sequence of   *)
(* lines; Classify gives the verdict the PROPERTY assigns to it, Parse is  *)
(* the line-driven parser of BufferedSatSolver (status / v lines /         *)
(* terminating zero); MCExtReply checks Parse against Classify for all     *)
(* replies up to a length and exports them for replay into the real code.  *)
(* HeaderOK: the 'p cnf' line declares at least every variable in clauses  *)
(* and assumptions and the exact clause count.                             *)
(***************************************************************************)
EXTENDS Integers, Sequences, FiniteSets, TLC

(* ------------------------------ Part 2 ------------------------------ *)
(* line kinds, with their concrete text over 3 variables (see harness/src/ext.rs)                         *)
(*  sSAT "s SATISFIABLE"   sUNSAT "s UNSATISFIABLE"   sOther "s UNKNOWN"                                  *)
(*  vA "v 1 -2"   vB0 "v 3 0"   vAB0 "v 1 -2 3 0"   v0 "v 0"   vBare "v"                                  *)
(*  cmt "c text"  blank ""   garbage "hello"   vOOB "v 9 0"   vNonLit "v x 0"                             *)
(*  vBin "v 1 <invalid UTF-8 bytes>"   bin "<invalid UTF-8 bytes>"   (a reply need not be text at all)       *)
LineKinds == {"sSAT", "sUNSAT", "sOther", "vA", "vB0", "vAB0", "v0", "vBare", "cmt", "blank", "garbage", "vOOB", "vNonLit", "vBin", "bin"}
LitsOf(k) == CASE k = "vA" -> <<1, -2>> [] k = "vB0" -> <<3, 0>> [] k = "vAB0" -> <<1, -2, 3, 0>> [] k = "v0" -> <<0>>
               [] k = "vOOB" -> <<9, 0>> [] OTHER -> <<>>
IsV(k) == k \in {"vA", "vB0", "vAB0", "v0", "vOOB", "vNonLit"}
Neutral(k) == k \in {"cmt", "blank"}

RECURSIVE Flat(_)
Flat(ls) == IF ls = <<>> THEN <<>> ELSE LitsOf(Head(ls)) \o Flat(Tail(ls))
Count(ls, P(_)) == Cardinality({i \in 1..Len(ls) : P(ls[i])})

(* the verdict the property assigns to a reply *)
Classify(ls) ==
  LET nstat == Count(ls, LAMBDA k : k \in {"sSAT", "sUNSAT"})
      bad   == Count(ls, LAMBDA k : k \in {"garbage", "vOOB", "vNonLit", "sOther", "vBin", "bin"})
      lits  == Flat(ls)
      zeros == Cardinality({i \in 1..Len(lits) : lits[i] = 0})
      nv    == Count(ls, IsV)
  IN IF bad = 0 /\ nstat = 1 /\ Count(ls, LAMBDA k : k = "sSAT") = 1 /\ nv > 0 /\ zeros = 1 /\ lits[Len(lits)] = 0
          /\ Count(ls, LAMBDA k : k = "vBare") = 0
     THEN <<"MustSat", {lits[i] : i \in 1..(Len(lits) - 1)}>>
     ELSE IF bad = 0 /\ nstat = 1 /\ Count(ls, LAMBDA k : k = "sUNSAT") = 1 /\ nv = 0 /\ Count(ls, LAMBDA k : k = "vBare") = 0
     THEN <<"MustUnsat", {}>>
     ELSE IF nstat = 0 \/ bad > 0 \/ (Count(ls, LAMBDA k : k = "sSAT") >= 1 /\ (nv = 0 \/ zeros = 0))
     THEN <<"MustNotResult", {}>>           \* missing status, malformed line, status without model, truncated model
     ELSE <<"Unspecified", {}>>             \* e.g. two status lines, a second zero, UNSAT followed by values, bare "v" lines

(* BufferedSatSolver's parser (as repaired: an unterminated model is not a model) *)
RECURSIVE ParseFrom(_, _, _, _, _)
ParseFrom(ls, status, seen, ended, lits) ==
  IF ls = <<>> THEN
       IF status = "sat" THEN (IF seen /\ ended THEN <<"sat", lits>> ELSE <<"unknown", {}>>)
       ELSE IF status = "unsat" THEN <<"unsat", {}>> ELSE <<"unknown", {}>>
  ELSE LET k == Head(ls) IN
       IF k \in {"sSAT", "sUNSAT"} THEN
            IF status # "none" THEN <<"abort", {}>>
            ELSE ParseFrom(Tail(ls), IF k = "sSAT" THEN "sat" ELSE "unsat", seen, ended, lits)
       ELSE IF k \in {"vNonLit", "vOOB", "vBin", "bin"} THEN <<"abort", {}>>
       ELSE IF IsV(k) THEN
            LET w == LitsOf(k)
                z == Cardinality({i \in 1..Len(w) : w[i] = 0})
            IN IF z > 0 /\ ended THEN <<"abort", {}>>
               ELSE ParseFrom(Tail(ls), status, TRUE, ended \/ z > 0, lits \cup {w[i] : i \in {j \in 1..Len(w) : w[j] # 0}})
       ELSE IF k \in {"cmt", "blank", "vBare"} THEN ParseFrom(Tail(ls), status, seen, ended, lits)
       ELSE <<"abort", {}>>
Parse(ls) == ParseFrom(ls, "none", FALSE, FALSE, {})

Conforms(verdict, res) ==
  CASE verdict[1] = "MustSat" -> res[1] = "sat" /\ res[2] = verdict[2]
    [] verdict[1] = "MustUnsat" -> res[1] = "unsat"
    [] verdict[1] = "MustNotResult" -> res[1] \in {"unknown", "abort"}
    [] OTHER -> TRUE

(* ------------------------------ Part 3 ------------------------------ *)
HeaderOK(nv, nc, maxvar, nclauses) == nv >= maxvar /\ nc = nclauses
=============================================================================
