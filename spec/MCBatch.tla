------------------------------ MODULE MCBatch ------------------------------
(***************************************************************************)
(* Query-free batches of updates (C08/C09).  The dynamic solvers buffer the *)
(* updates received between two queries and replay them lazily: what they  *)
(* must answer afterwards depends only on the logical framework (Store),   *)
(* whatever the batch contained (attacks added and removed again, an       *)
(* argument removed and re-created, ...).  This module enumerates, from     *)
(* every logical state over the labels (reached by one canonical history   *)
(* and observed by a query round, marker "q"), EVERY sequence of at most   *)
(* MaxBatch effective updates, and exports each as a history (REPLAY line) *)
(* to be replayed into the real solvers, a query round at the end.         *)
(***************************************************************************)
EXTENDS Store, Json, SequencesExt, Integers
CONSTANT MaxBatch
VARIABLES hist, phase, rank, blen
vars == <<s, hist, phase, rank, blen>>
RankOf(o) == IF o.op = "newarg" THEN o.a ELSE 100 + 10 * o.a + o.b
Q == [op |-> "q", a |-> 0, b |-> 0]
BInit == s = InitS /\ hist = <<>> /\ phase = "base" /\ rank = 0 /\ blen = 0
BuildBase == /\ phase = "base"
             /\ \E o \in {x \in Ops : x.op \in {"newarg", "newatt"}} :
                  /\ RankOf(o) > rank /\ Step(s, o).res = "ok" /\ Step(s, o).st # s
                  /\ s' = Step(s, o).st /\ hist' = Append(hist, o) /\ rank' = RankOf(o)
             /\ UNCHANGED <<phase, blen>>
Observe == /\ phase = "base" /\ phase' = "batch" /\ hist' = Append(hist, Q) /\ UNCHANGED <<s, rank, blen>>
Batch == /\ phase = "batch" /\ blen < MaxBatch
         /\ \E o \in Ops : /\ Step(s, o).st # s
                           /\ s' = Step(s, o).st /\ hist' = Append(hist, o)
         /\ blen' = blen + 1 /\ UNCHANGED <<phase, rank>>
BNext == BuildBase \/ Observe \/ Batch
BSpec == BInit /\ [][BNext]_vars
Export == (phase = "batch" /\ blen >= 2) => PrintT(<<"REPLAY", ToJson([hist |-> hist])>>)
(* the logical framework after a batch is the fold of Step, whatever the batch *)
FoldOK == s = Run(InitS, SelectSeq(hist, LAMBDA o : o.op # "q"))
=============================================================================
