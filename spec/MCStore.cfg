CONSTANTS Labels = {1, 2, 3}
  MaxIds = 4
SPECIFICATION Spec2
VIEW View
CHECK_DEADLOCK FALSE
CONSTRAINT Bound
INVARIANT TypeOK
INVARIANT ErrNoChange
INVARIANT Idempotent
INVARIANT Export
PROPERTY IdsStable2
