SPECIFICATION Spec
CHECK_DEADLOCK FALSE
INVARIANT TotalOutcome
INVARIANT AnswerIffWellFormed
INVARIANT Export
