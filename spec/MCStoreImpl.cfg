CONSTANTS Labels = {1, 2, 3}
  MaxIds = 3
  MaxAttVec = 4
SPECIFICATION Spec
CHECK_DEADLOCK FALSE
CONSTRAINT Bound
INVARIANT Refines
INVARIANT Observed
INVARIANT AbsWellFormed
