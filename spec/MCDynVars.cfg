CONSTANTS MaxVar = 9
  Allocation = "above_solver"
SPECIFICATION Spec
CHECK_DEADLOCK FALSE
INVARIANT NoSharedVariable
