CONSTANTS MaxVar = 9
  Allocation = "private"
SPECIFICATION Spec
CHECK_DEADLOCK FALSE
INVARIANT NoSharedVariable
