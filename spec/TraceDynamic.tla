---------------------------- MODULE TraceDynamic ----------------------------
(***************************************************************************)
(* Judge of traces recorded from the six dynamic solver types (C08, C09).  *)
(* The trace spec carries the LOGICAL framework itself: it applies every   *)
(* logged update with Store.tla's Step (so a rejected or redundant update  *)
(* leaves it unchanged, whatever the implementation reported) and judges   *)
(* every query event against Dung.tla on that framework: "as a computation *)
(* from scratch would".  Once a redundant or invalid update has occurred   *)
(* in a history, later verdicts are attributed to C09 instead of C08.      *)
(***************************************************************************)
EXTENDS Dung, TLC, Json, IOUtils, SequencesExt, FiniteSetsExt
Rec == ndJsonDeserialize(IOEnv.TRACE)
Labels == 1..64
VARIABLES l, m, fams, tainted, sem, certsem, wide
St == INSTANCE Store WITH s <- m
vars == <<l, m, fams, tainted, sem, certsem, wide>>

Report(name, ok) == IF ok THEN TRUE ELSE PrintT(<<"T1", l, name>>)
P == IF tainted THEN "C09" ELSE "C08"
FamsOf(x, s1, s2) == LET a == St!AsAF(x) IN [s \in {s1, s2} |-> FamFast(a, s)]
OpOf(e) == [op |-> e.o.op, a |-> e.o.a, b |-> e.o.b]

Init == l = 1 /\ m = St!InitS /\ fams = <<>> /\ tainted = FALSE /\ sem = "CO" /\ certsem = "CO" /\ wide = FALSE

JudgeQ(e) ==
  LET cred == e.kind = "DC"
      A == {e.arg}
      fm == fams[e.sem]
      ref == IF cred THEN CredIn(fm, A) ELSE SkepIn(fm, A)
      E == ToSet(e.ext)
      cs == IF cred THEN certsem ELSE e.sem
      promised == IF cred THEN e.st = "yes" ELSE e.st = "no"
  IN
  /\ Report(P \o ":query_known_arg", St!Known(m, e.arg))     \* harness only queries live arguments (drift guard)
  /\ Report(P \o ":returns", e.panic = "")
  \* more than 400 SAT calls for one query on these small frameworks: the search was not going to terminate
  /\ ("capped" \in DOMAIN e) => Report("C18:terminates", ~e.capped)
  /\ e.panic = "" =>
       /\ Report(P \o ":status", (e.st = "yes") = ref)
       /\ ~e.cert => Report(P \o ":no_cert_unasked", ~e.has_ext)
       /\ e.cert =>
            /\ Report(P \o ":cert_iff_promised", e.has_ext = promised)
            /\ e.has_ext =>
                 /\ Report(P \o ":cert_is_extension", E \in fams[cs])
                 /\ Report(P \o ":cert_witnesses", IF cred THEN e.arg \in E ELSE e.arg \notin E)
                 /\ Report(P \o ":cert_no_duplicates", Len(e.ext) = Cardinality(E))

Next ==
  /\ l <= Len(Rec)
  /\ l' = l + 1
  /\ LET e == Rec[l] IN
     CASE e.ev = "reset" ->
            /\ m' = St!InitS /\ tainted' = FALSE /\ sem' = e.sem /\ certsem' = e.certsem_dc /\ wide' = e.wide
            /\ fams' = FamsOf(St!InitS, e.sem, e.certsem_dc)
       [] e.ev = "u" ->
            LET r == St!Step(m, OpOf(e)) IN
            /\ m' = r.st /\ UNCHANGED <<sem, certsem, wide>>
            \* wide histories (18+ labels): only the update results are judged, the families are out of reach
            /\ fams' = IF r.st = m \/ wide THEN fams ELSE FamsOf(r.st, sem, certsem)
            /\ IF r.res = "err"
               THEN Report("C09:invalid_rejected", e.res = "err") /\ tainted' = TRUE
               ELSE IF r.st = m
                    THEN Report("C09:redundant_noop", e.res = "ok") /\ tainted' = TRUE
                    ELSE Report(P \o ":update_accepted", e.res = "ok") /\ tainted' = tainted
       \* histories that build a given framework: same judgement of the update, the families are recomputed at the next "sync" only
       [] e.ev = "ub" ->
            LET r == St!Step(m, OpOf(e)) IN
            /\ m' = r.st /\ fams' = <<>> /\ UNCHANGED <<sem, certsem, wide>>
            /\ IF r.res = "err"
               THEN Report("C09:invalid_rejected", e.res = "err") /\ tainted' = TRUE
               ELSE IF r.st = m
                    THEN Report("C09:redundant_noop", e.res = "ok") /\ tainted' = TRUE
                    ELSE Report(P \o ":update_accepted", e.res = "ok") /\ tainted' = tainted
       [] e.ev = "sync" -> fams' = FamsOf(m, sem, certsem) /\ UNCHANGED <<m, tainted, sem, certsem, wide>>
       [] e.ev = "q" -> JudgeQ(e) /\ UNCHANGED <<m, fams, tainted, sem, certsem, wide>>
       [] e.ev = "usable" -> Report(P \o ":stays_usable", e.panic = "") /\ UNCHANGED <<m, fams, tainted, sem, certsem, wide>>
       [] OTHER -> UNCHANGED <<m, fams, tainted, sem, certsem, wide>>

Spec == Init /\ [][Next]_vars
Consumed == TLCGet("stats").diameter - 1 = Len(Rec) \/ PrintT(<<"UNCONSUMED", TLCGet("stats").diameter, Len(Rec)>>)
=============================================================================
