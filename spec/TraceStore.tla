----------------------------- MODULE TraceStore -----------------------------
(***************************************************************************)
(* Judge of traces recorded from the real AAFramework (C12).  The trace    *)
(* spec re-uses Store.tla's Step: it carries the abstract set model        *)
(* forward itself and compares, at every event, the result of the update   *)
(* call and the COMPLETE public projection of the real object with it.     *)
(*   reset  : new history (init = labels given to new_with_labels)         *)
(*   u      : an update applied to the real object; the model steps too    *)
(*   probe  : an update applied to a rebuilt copy; the model does not move *)
(*            (one probe per outgoing edge of a state of MCStore's graph)  *)
(***************************************************************************)
EXTENDS Naturals, FiniteSets, Sequences, SequencesExt, TLC, Json, IOUtils
Rec == ndJsonDeserialize(IOEnv.TRACE)
Labels == 1..64
VARIABLES l, m
St == INSTANCE Store WITH s <- m
NoId == 999999

Pairs(seq) == {<<p[1], p[2]>> : p \in ToSet(seq)}
Report(name, ok) == IF ok THEN TRUE ELSE PrintT(<<"T1", l, name>>)
NoDup(seq) == Cardinality(ToSet(seq)) = Len(seq)

ListsOK(ls, x, pos) ==           \* iter_attacks_from / iter_attacks_to per live argument
  /\ {e.id : e \in ToSet(ls)} = St!LiveIds(x) /\ Len(ls) = Cardinality(St!LiveIds(x))
  /\ \A e \in ToSet(ls) : NoDup(e.l) /\ Pairs(e.l) = {q \in x.att : q[pos] = e.id}

Judge(e, x, expres) ==
  LET p == e.proj IN
  /\ Report("C12:returns", e.res # "panic" /\ ~p.panic)
  /\ (e.res # "panic" /\ ~p.panic) =>
       /\ Report("C12:result", e.res = expres)
       /\ Report("C12:arguments", /\ p.nargs = Cardinality(DOMAIN x.live) /\ p.len = p.nargs
                                  /\ p.empty = (p.nargs = 0)
                                  /\ Len(p.args) = p.nargs
                                  /\ Pairs(p.args) = {<<lb, x.live[lb]>> : lb \in DOMAIN x.live}
                                  /\ p.byid)
       /\ Report("C12:ids", /\ \A k \in 1..Len(p.has) : p.has[k] = ((k - 1) \in St!LiveIds(x))
                            /\ \A g \in ToSet(p.get) : g[2] = (IF St!Known(x, g[1]) THEN x.live[g[1]] ELSE NoId))
       /\ Report("C12:attack_count", p.natt = Cardinality(x.att))
       /\ Report("C12:attacks", NoDup(p.atts) /\ Pairs(p.atts) = x.att)
       /\ Report("C12:attacks_from", ListsOK(p.from, x, 1))
       /\ Report("C12:attacks_to", ListsOK(p.to, x, 2))

OpOf(e) == [op |-> e.o.op, a |-> e.o.a, b |-> e.o.b]

Init == l = 1 /\ m = St!InitS
Next ==
  /\ l <= Len(Rec)
  /\ l' = l + 1
  /\ LET e == Rec[l] IN
     CASE e.ev = "reset" -> m' = St!Run(St!InitS, [k \in 1..Len(e.init) |-> St!OpNewArg(e.init[k])])
       [] e.ev = "u" -> LET r == St!Step(m, OpOf(e)) IN Judge(e, r.st, r.res) /\ m' = r.st
       [] e.ev = "x" -> LET r == St!Step(m, OpOf(e)) IN          \* an update whose projection is not logged (wide histories, C14 runs)
                        /\ m' = r.st
                        /\ ("res" \in DOMAIN e) => Report("C12:result", e.res = r.res)
       [] e.ev = "rt" -> /\ m' = m          \* C14: AspartixWriter::write_framework then AspartixReader::read
                         /\ LET b == e.back
                                ids == St!LiveIds(m)
                                RECURSIVE Ordered(_)
                                Ordered(S) == IF S = {} THEN <<>> ELSE LET i == CHOOSE i \in S : \A j \in S : i <= j IN <<St!LabelOf(m, i)>> \o Ordered(S \ {i})
                            IN /\ Report("C14:framework_reads_back", b.res = "ok")
                               /\ b.res = "ok" =>
                                    /\ Report("C14:same_labels_same_order", b.args = Ordered(ids))
                                    /\ Report("C14:same_attacks", Pairs(b.att) = St!AsAF(m).att /\ b.natt_raw = Cardinality(m.att))
                                    /\ Report("C14:one_declaration_per_line", b.nlines = Cardinality(ids) + Cardinality(m.att))
       [] e.ev = "probe" -> LET r == St!Step(m, OpOf(e)) IN Judge(e, r.st, r.res) /\ m' = m
       [] OTHER -> m' = m
Spec == Init /\ [][Next]_<<l, m>>
Consumed == TLCGet("stats").diameter - 1 = Len(Rec) \/ PrintT(<<"UNCONSUMED", TLCGet("stats").diameter, Len(Rec)>>)
=============================================================================
