CONSTANTS N = 3
  Modes = {"ID"}
  Bases = {"CO"}
  Faults = TRUE
SPECIFICATION Spec
CHECK_DEADLOCK FALSE
INVARIANT Correct
INVARIANT FaultNeverAnswers
INVARIANT CallBound
PROPERTY Terminates
