CONSTANTS HybridThreshold = 32
  BruteMaxVars = 9
SPECIFICATION Spec
CHECK_DEADLOCK FALSE
POSTCONDITION Consumed
