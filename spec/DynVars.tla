------------------------------ MODULE DynVars ------------------------------
(***************************************************************************)
(* S3, variable level: who owns which SAT variable in a dynamic solver.    *)
(* The dynamic encoder numbers its variables itself (argument, attacker    *)
(* disjunction = argument + 1, one selector per attacker-set version); the *)
(* maximal-extension computer of the preferred solver takes                *)
(* 1 + n_vars() of the SHARED solver as its selector and fixes it true     *)
(* when it is dropped.  Allocation = "private" is the pinned design        *)
(* (defect F9: the encoder's private counter hands the computer's variable *)
(* out again); Allocation = "above_solver" is the repaired one (b1cd12b).  *)
(* Invariant: a variable never has two owners.                             *)
(***************************************************************************)
EXTENDS Naturals, FiniteSets, TLC
CONSTANTS MaxVar, Allocation
VARIABLES owner,      \* function: variable -> "arg" | "disj" | "sel" | "retired" | "search" (selector of a search) | "fixed"
          counter,    \* the encoder's private counter (number of variables it created, plus holes)
          solverMax,  \* n_vars() of the shared solver: highest variable occurring in a clause
          searching   \* variable used as selector by a running search, or 0
vars == <<owner, counter, solverMax, searching>>
Max(a, b) == IF a > b THEN a ELSE b
Init == owner = <<>> /\ counter = 0 /\ solverMax = 0 /\ searching = 0

(* next variable the encoder would hand out *)
Fresh == IF Allocation = "private" THEN counter + 1 ELSE Max(counter, solverMax) + 1
Clash(v) == v \in DOMAIN owner

(* new_argument: two consecutive variables, both used in a clause at once *)
NewArgument ==
  /\ Fresh + 1 <= MaxVar
  /\ LET v == Fresh IN
     /\ owner' = [x \in DOMAIN owner \cup {v, v + 1} |->
                    IF x = v THEN (IF Clash(v) THEN "CLASH" ELSE "arg")
                    ELSE IF x = v + 1 THEN (IF Clash(v + 1) THEN "CLASH" ELSE "disj") ELSE owner[x]]
     /\ counter' = v + 1 /\ solverMax' = Max(solverMax, v + 1)
  /\ UNCHANGED searching
(* update_attacks_to_constraints: a fresh selector, used in clauses at once *)
NewSelector ==
  /\ Fresh <= MaxVar
  /\ LET v == Fresh IN
     /\ owner' = [x \in DOMAIN owner \cup {v} |-> IF x = v THEN (IF Clash(v) THEN "CLASH" ELSE "sel") ELSE owner[x]]
     /\ counter' = v /\ solverMax' = Max(solverMax, v)
  /\ UNCHANGED searching
RetireSelector == /\ \E v \in DOMAIN owner : owner[v] = "sel" /\ owner' = [owner EXCEPT ![v] = "retired"]
                  /\ UNCHANGED <<counter, solverMax, searching>>
(* a skeptical query of the preferred solver: MaximalExtensionComputer::new takes 1 + n_vars(), uses it in blocking clauses *)
StartSearch == /\ searching = 0 /\ solverMax + 1 <= MaxVar
               /\ LET v == solverMax + 1 IN
                  /\ searching' = v /\ solverMax' = v
                  /\ owner' = [x \in DOMAIN owner \cup {v} |-> IF x = v THEN (IF Clash(v) THEN "CLASH" ELSE "search") ELSE owner[x]]
               /\ UNCHANGED counter
(* Drop: unit clause [selector] *)
EndSearch == /\ searching # 0 /\ owner' = [owner EXCEPT ![searching] = "fixed"] /\ searching' = 0
             /\ UNCHANGED <<counter, solverMax>>
Next == NewArgument \/ NewSelector \/ RetireSelector \/ StartSearch \/ EndSearch
Spec == Init /\ [][Next]_vars
NoSharedVariable == \A v \in DOMAIN owner : owner[v] # "CLASH"
=============================================================================
