------------------------------ MODULE MCReader ------------------------------
EXTENDS Reader, Json, SequencesExt
CONSTANTS MaxLines, Fmt
VARIABLE file
Kinds == IF Fmt = "iccma" THEN IccmaKinds ELSE ApxKinds
Init == file = <<>>
Next == Len(file) < MaxLines /\ \E k \in Kinds : file' = Append(file, k)
Spec == Init /\ [][Next]_file
MachineConforms == IF Fmt = "iccma" THEN Conforms(IccmaVerdict(file), IccmaRun(file))
                   ELSE Conforms(ApxVerdict(file), ApxRun(file))
Export == PrintT(<<"REPLAY", ToJson([fmt |-> Fmt, lines |-> file])>>)
=============================================================================
