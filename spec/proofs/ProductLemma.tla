---------------------------- MODULE ProductLemma ----------------------------
(***************************************************************************)
(* Unbounded proof (TLAPS) of the product theorem the judges and the code   *)
(* both rely on: when no attack links two parts A1 and A2 of a framework,   *)
(* its complete / stable / preferred extensions are exactly the unions of   *)
(* extensions of the parts (crustabri answers queries component by          *)
(* component; Meta.tla evaluates families component by component).  MCDung  *)
(* checks invariant Product for all frameworks of at most 4 arguments;      *)
(* here the statement is proved for arbitrary sets of arguments.            *)
(***************************************************************************)
CONSTANTS A1, A2, R
Att(a, b) == <<a, b>> \in R
ASSUME Disjoint == A1 \cap A2 = {}
ASSUME NoLink == \A a, b : Att(a, b) => ((a \in A1 /\ b \in A1) \/ (a \in A2 /\ b \in A2))

CF(E) == \A a \in E : \A b \in E : ~Att(a, b)
Attacks(E, b) == \E c \in E : Att(c, b)
Defended(E, a, X) == \A b \in X : Att(b, a) => Attacks(E, b)
Complete(E, X) == /\ E \subseteq X
                  /\ CF(E)
                  /\ \A a \in X : (a \in E) <=> Defended(E, a, X)
Stable(E, X) == /\ E \subseteq X
                /\ CF(E)
                /\ \A a \in X \ E : Attacks(E, a)
MaxComplete(E, X) == Complete(E, X) /\ \A F : (Complete(F, X) /\ E \subseteq F) => F = E
LeastComplete(E, X) == Complete(E, X) /\ \A F : Complete(F, X) => E \subseteq F

LEMMA Def1 == \A E : \A a \in A1 : Defended(E, a, A1 \cup A2) <=> Defended(E \cap A1, a, A1)
  BY NoLink, Disjoint DEF Defended, Attacks, Att
LEMMA Def2 == \A E : \A a \in A2 : Defended(E, a, A1 \cup A2) <=> Defended(E \cap A2, a, A2)
  BY NoLink, Disjoint DEF Defended, Attacks, Att
LEMMA Att1 == \A E : \A a \in A1 : Attacks(E, a) <=> Attacks(E \cap A1, a)
  BY NoLink, Disjoint DEF Attacks, Att
LEMMA Att2 == \A E : \A a \in A2 : Attacks(E, a) <=> Attacks(E \cap A2, a)
  BY NoLink, Disjoint DEF Attacks, Att
LEMMA CFSplit == \A E : E \subseteq A1 \cup A2 => (CF(E) <=> (CF(E \cap A1) /\ CF(E \cap A2)))
<1> TAKE E
<1> HAVE E \subseteq A1 \cup A2
<1>1. CF(E) => CF(E \cap A1) /\ CF(E \cap A2)
  BY DEF CF
<1>2. ASSUME CF(E \cap A1), CF(E \cap A2) PROVE CF(E)
  <2> SUFFICES ASSUME NEW a \in E, NEW b \in E, Att(a, b) PROVE FALSE
    BY DEF CF
  <2>1. CASE a \in A1 /\ b \in A1
    BY <2>1, <1>2 DEF CF
  <2>2. CASE a \in A2 /\ b \in A2
    BY <2>2, <1>2 DEF CF
  <2> QED BY <2>1, <2>2, NoLink
<1> QED BY <1>1, <1>2

THEOREM CompleteProduct ==
  \A E : Complete(E, A1 \cup A2) <=> /\ E \subseteq A1 \cup A2
                                     /\ Complete(E \cap A1, A1)
                                     /\ Complete(E \cap A2, A2)
<1> TAKE E
<1>1. ASSUME Complete(E, A1 \cup A2)
      PROVE  E \subseteq A1 \cup A2 /\ Complete(E \cap A1, A1) /\ Complete(E \cap A2, A2)
  <2>1. E \subseteq A1 \cup A2 /\ CF(E) /\ \A a \in A1 \cup A2 : (a \in E) <=> Defended(E, a, A1 \cup A2)
    BY <1>1 DEF Complete
  <2>2. CF(E \cap A1) /\ CF(E \cap A2)
    BY <2>1, CFSplit
  <2>3. \A a \in A1 : (a \in E \cap A1) <=> Defended(E \cap A1, a, A1)
    BY <2>1, Def1
  <2>4. \A a \in A2 : (a \in E \cap A2) <=> Defended(E \cap A2, a, A2)
    BY <2>1, Def2
  <2> QED BY <2>1, <2>2, <2>3, <2>4 DEF Complete
<1>2. ASSUME E \subseteq A1 \cup A2, Complete(E \cap A1, A1), Complete(E \cap A2, A2)
      PROVE  Complete(E, A1 \cup A2)
  <2>1. CF(E)
    BY <1>2, CFSplit DEF Complete
  <2>2. \A a \in A1 : (a \in E) <=> Defended(E, a, A1 \cup A2)
    BY <1>2, Def1 DEF Complete
  <2>3. \A a \in A2 : (a \in E) <=> Defended(E, a, A1 \cup A2)
    BY <1>2, Def2 DEF Complete
  <2> QED BY <1>2, <2>1, <2>2, <2>3 DEF Complete
<1> QED BY <1>1, <1>2

THEOREM StableProduct ==
  \A E : Stable(E, A1 \cup A2) <=> /\ E \subseteq A1 \cup A2
                                   /\ Stable(E \cap A1, A1)
                                   /\ Stable(E \cap A2, A2)
<1> TAKE E
<1>1. ASSUME Stable(E, A1 \cup A2)
      PROVE  E \subseteq A1 \cup A2 /\ Stable(E \cap A1, A1) /\ Stable(E \cap A2, A2)
  <2>1. E \subseteq A1 \cup A2 /\ CF(E) /\ \A a \in (A1 \cup A2) \ E : Attacks(E, a)
    BY <1>1 DEF Stable
  <2>2. CF(E \cap A1) /\ CF(E \cap A2)
    BY <2>1, CFSplit
  <2>3. \A a \in A1 \ (E \cap A1) : Attacks(E \cap A1, a)
    BY <2>1, Att1
  <2>4. \A a \in A2 \ (E \cap A2) : Attacks(E \cap A2, a)
    BY <2>1, Att2
  <2> QED BY <2>1, <2>2, <2>3, <2>4 DEF Stable
<1>2. ASSUME E \subseteq A1 \cup A2, Stable(E \cap A1, A1), Stable(E \cap A2, A2)
      PROVE  Stable(E, A1 \cup A2)
  <2>1. CF(E)
    BY <1>2, CFSplit DEF Stable
  <2>2. \A a \in A1 \ E : Attacks(E, a)
    BY <1>2, Att1 DEF Stable
  <2>3. \A a \in A2 \ E : Attacks(E, a)
    BY <1>2, Att2 DEF Stable
  <2> QED BY <1>2, <2>1, <2>2, <2>3 DEF Stable
<1> QED BY <1>1, <1>2

(* unions of complete extensions of the parts, and how inclusion decomposes *)
LEMMA UnionComplete == \A C1, C2 : (Complete(C1, A1) /\ Complete(C2, A2)) => Complete(C1 \cup C2, A1 \cup A2)
<1> TAKE C1, C2
<1> HAVE Complete(C1, A1) /\ Complete(C2, A2)
<1>1. C1 \subseteq A1 /\ C2 \subseteq A2
  BY DEF Complete
<1>2. (C1 \cup C2) \cap A1 = C1 /\ (C1 \cup C2) \cap A2 = C2
  BY <1>1, Disjoint
<1> QED BY <1>1, <1>2, CompleteProduct

THEOREM PreferredProduct ==
  \A E : MaxComplete(E, A1 \cup A2) <=> /\ E \subseteq A1 \cup A2
                                        /\ MaxComplete(E \cap A1, A1)
                                        /\ MaxComplete(E \cap A2, A2)
<1> TAKE E
<1>1. ASSUME MaxComplete(E, A1 \cup A2)
      PROVE  E \subseteq A1 \cup A2 /\ MaxComplete(E \cap A1, A1) /\ MaxComplete(E \cap A2, A2)
  <2>1. E \subseteq A1 \cup A2 /\ Complete(E \cap A1, A1) /\ Complete(E \cap A2, A2)
    BY <1>1, CompleteProduct DEF MaxComplete
  <2>2. ASSUME NEW F, Complete(F, A1), E \cap A1 \subseteq F PROVE F = E \cap A1
    <3>1. Complete(F \cup (E \cap A2), A1 \cup A2)
      BY <2>1, <2>2, UnionComplete
    <3>2. E \subseteq F \cup (E \cap A2)
      BY <2>1, <2>2
    <3>3. F \cup (E \cap A2) = E
      BY <3>1, <3>2, <1>1 DEF MaxComplete
    <3>4. F \subseteq A1
      BY <2>2 DEF Complete
    <3> QED BY <3>3, <3>4, Disjoint
  <2>3. ASSUME NEW F, Complete(F, A2), E \cap A2 \subseteq F PROVE F = E \cap A2
    <3>1. Complete((E \cap A1) \cup F, A1 \cup A2)
      BY <2>1, <2>3, UnionComplete
    <3>2. E \subseteq (E \cap A1) \cup F
      BY <2>1, <2>3
    <3>3. (E \cap A1) \cup F = E
      BY <3>1, <3>2, <1>1 DEF MaxComplete
    <3>4. F \subseteq A2
      BY <2>3 DEF Complete
    <3> QED BY <3>3, <3>4, Disjoint
  <2> QED BY <2>1, <2>2, <2>3 DEF MaxComplete
<1>2. ASSUME E \subseteq A1 \cup A2, MaxComplete(E \cap A1, A1), MaxComplete(E \cap A2, A2)
      PROVE  MaxComplete(E, A1 \cup A2)
  <2>1. Complete(E, A1 \cup A2)
    BY <1>2, CompleteProduct DEF MaxComplete
  <2>2. ASSUME NEW F, Complete(F, A1 \cup A2), E \subseteq F PROVE F = E
    <3>1. F \subseteq A1 \cup A2 /\ Complete(F \cap A1, A1) /\ Complete(F \cap A2, A2)
      BY <2>2, CompleteProduct
    <3>2. F \cap A1 = E \cap A1
      BY <3>1, <2>2, <1>2 DEF MaxComplete
    <3>3. F \cap A2 = E \cap A2
      BY <3>1, <2>2, <1>2 DEF MaxComplete
    <3> QED BY <3>1, <3>2, <3>3, <1>2
  <2> QED BY <2>1, <2>2 DEF MaxComplete
<1> QED BY <1>1, <1>2

THEOREM GroundedProduct ==
  \A E : LeastComplete(E, A1 \cup A2) <=> /\ E \subseteq A1 \cup A2
                                          /\ LeastComplete(E \cap A1, A1)
                                          /\ LeastComplete(E \cap A2, A2)
<1> TAKE E
<1>1. ASSUME LeastComplete(E, A1 \cup A2)
      PROVE  E \subseteq A1 \cup A2 /\ LeastComplete(E \cap A1, A1) /\ LeastComplete(E \cap A2, A2)
  <2>1. E \subseteq A1 \cup A2 /\ Complete(E \cap A1, A1) /\ Complete(E \cap A2, A2)
    BY <1>1, CompleteProduct DEF LeastComplete
  <2>2. ASSUME NEW F, Complete(F, A1) PROVE E \cap A1 \subseteq F
    <3>1. Complete(F \cup (E \cap A2), A1 \cup A2)
      BY <2>1, <2>2, UnionComplete
    <3>2. E \subseteq F \cup (E \cap A2)
      BY <3>1, <1>1 DEF LeastComplete
    <3> QED BY <3>2, Disjoint
  <2>3. ASSUME NEW F, Complete(F, A2) PROVE E \cap A2 \subseteq F
    <3>1. Complete((E \cap A1) \cup F, A1 \cup A2)
      BY <2>1, <2>3, UnionComplete
    <3>2. E \subseteq (E \cap A1) \cup F
      BY <3>1, <1>1 DEF LeastComplete
    <3> QED BY <3>2, Disjoint
  <2> QED BY <2>1, <2>2, <2>3 DEF LeastComplete
<1>2. ASSUME E \subseteq A1 \cup A2, LeastComplete(E \cap A1, A1), LeastComplete(E \cap A2, A2)
      PROVE  LeastComplete(E, A1 \cup A2)
  <2>1. Complete(E, A1 \cup A2)
    BY <1>2, CompleteProduct DEF LeastComplete
  <2>2. ASSUME NEW F, Complete(F, A1 \cup A2) PROVE E \subseteq F
    <3>1. Complete(F \cap A1, A1) /\ Complete(F \cap A2, A2)
      BY <2>2, CompleteProduct
    <3>2. E \cap A1 \subseteq F \cap A1 /\ E \cap A2 \subseteq F \cap A2
      BY <3>1, <1>2 DEF LeastComplete
    <3> QED BY <3>2, <1>2
  <2> QED BY <2>1, <2>2 DEF LeastComplete
<1> QED BY <1>1, <1>2
=============================================================================
