---------------------------- MODULE GroundedLemma ----------------------------
(***************************************************************************)
(* The induction steps behind the hypotheses of ReductLemma (TLAPS).  The   *)
(* grounded extension is computed by the judges as the limit of             *)
(* {} , F({}), F(F({})), ... (Meta!GroundedFast).  Each step preserves       *)
(*   - admissibility (conflict-freeness and S \subseteq F(S)): StepAdm      *)
(*   - inclusion in any given complete extension:              StepInside   *)
(* and both hold of {}; hence the limit G is admissible and contained in    *)
(* every complete extension, which is what ReductLemma assumes of G (the    *)
(* finite induction itself is the evaluation of LfpFast by TLC; MCDung      *)
(* checks GroundedFast = Grounded and GRLeastComplete on all small          *)
(* frameworks).  At the limit G = F(G): G is itself complete.               *)
(***************************************************************************)
CONSTANTS A, R
Att(a, b) == <<a, b>> \in R
ASSUME Shape == \A a, b : Att(a, b) => (a \in A /\ b \in A)
CF(E) == \A a \in E : \A b \in E : ~Att(a, b)
Attacks(E, b) == \E c \in E : Att(c, b)
Defended(E, a, X) == \A b \in X : Att(b, a) => Attacks(E, b)
F(S) == {a \in A : Defended(S, a, A)}
Complete(E, X) == /\ E \subseteq X
                  /\ CF(E)
                  /\ \A a \in X : (a \in E) <=> Defended(E, a, X)
Adm(S) == S \subseteq A /\ CF(S) /\ S \subseteq F(S)

LEMMA Monotone == \A S, T : S \subseteq T => F(S) \subseteq F(T)
  BY DEF F, Defended, Attacks

LEMMA Base == Adm({}) /\ \A E : {} \subseteq E
  BY DEF Adm, CF, F

THEOREM StepInside == \A S, E : (Complete(E, A) /\ S \subseteq E) => F(S) \subseteq E
<1> TAKE S, E
<1> HAVE Complete(E, A) /\ S \subseteq E
<1>1. F(S) \subseteq F(E)
  BY Monotone
<1>2. F(E) \subseteq E
  BY DEF Complete, F
<1> QED BY <1>1, <1>2

THEOREM StepAdm == \A S : Adm(S) => Adm(F(S))
<1> TAKE S
<1> HAVE Adm(S)
<1>1. S \subseteq A /\ CF(S) /\ S \subseteq F(S)
  BY DEF Adm
<1>2. F(S) \subseteq A
  BY DEF F
<1>3. F(S) \subseteq F(F(S))
  BY <1>1, Monotone
<1>4. CF(F(S))
  <2> SUFFICES ASSUME NEW a \in F(S), NEW b \in F(S), Att(a, b) PROVE FALSE
    BY DEF CF
  <2>1. a \in A /\ b \in A
    BY DEF F
  <2>2. PICK c \in S : Att(c, a)
    BY <2>1 DEF F, Defended, Attacks
  <2>3. c \in A
    BY <2>2, <1>1
  <2>4. PICK d \in S : Att(d, c)
    BY <2>2, <2>3 DEF F, Defended, Attacks
  <2> QED BY <2>2, <2>4, <1>1 DEF CF
<1> QED BY <1>2, <1>3, <1>4 DEF Adm

(* at the limit: an admissible fixed point of F is a complete extension, so it satisfies all hypotheses of ReductLemma *)
THEOREM LimitComplete == \A G : (Adm(G) /\ F(G) = G) => Complete(G, A)
<1> TAKE G
<1> HAVE Adm(G) /\ F(G) = G
<1>1. G \subseteq A /\ CF(G)
  BY DEF Adm
<1>2. \A a \in A : (a \in G) <=> Defended(G, a, A)
  BY DEF F
<1> QED BY <1>1, <1>2 DEF Complete

THEOREM LimitAdmissibleForReduct ==
  \A G : Adm(G) => /\ G \subseteq A
                   /\ CF(G)
                   /\ \A g \in G : \A b \in A : Att(b, g) => Attacks(G, b)
  BY DEF Adm, F, Defended
=============================================================================
