----------------------------- MODULE SinkLemma -----------------------------
(***************************************************************************)
(* Unbounded proof (TLAPS) of the lifting lemma the judges rely on when a   *)
(* framework is padded with "sinks": arguments that attack nothing and are  *)
(* attacked only by arguments of the core.  MCDung checks LiftTheorem and   *)
(* SinkDirectionality exhaustively for every framework of at most 4         *)
(* arguments; here the complete and stable cases are proved for arbitrary   *)
(* (also infinite) sets of arguments:                                       *)
(*   E is complete in the padded framework  iff  E \cap A is complete in    *)
(*   the core and E \cap S is exactly the set of sinks defended by E \cap A *)
(*   E is stable in the padded framework    iff  E \cap A is stable in the  *)
(*   core and E \cap S is exactly the set of sinks not attacked by E \cap A *)
(* (LiftCO / LiftST of Meta.tla), the lift is an order isomorphism, hence   *)
(* the same holds for the preferred (maximal complete) and the grounded     *)
(* (least complete) extensions, and the status of every core argument is    *)
(* decided by the core (CoreStatus).  The ideal case stays model-checked.   *)
(***************************************************************************)
CONSTANTS A,      \* arguments of the core
          S,      \* sinks
          R       \* attacks: a set of pairs
Att(a, b) == <<a, b>> \in R
ASSUME Disjoint == A \cap S = {}
ASSUME Shape == \A a, b : Att(a, b) => (a \in A /\ b \in A \cup S)

CF(E) == \A a \in E : \A b \in E : ~Att(a, b)
Attacks(E, b) == \E c \in E : Att(c, b)
Defended(E, a, X) == \A b \in X : Att(b, a) => Attacks(E, b)
Complete(E, X) == /\ E \subseteq X
                  /\ CF(E)
                  /\ \A a \in X : (a \in E) <=> Defended(E, a, X)
Stable(E, X) == /\ E \subseteq X
                /\ CF(E)
                /\ \A a \in X \ E : Attacks(E, a)

LiftCO(C) == C \cup {s \in S : Defended(C, s, A)}
LiftST(C) == C \cup {s \in S : ~Attacks(C, s)}

LEMMA DefCore == \A E, a : Defended(E, a, A \cup S) <=> Defended(E \cap A, a, A)
  BY Shape, Disjoint DEF Defended, Attacks, Att

LEMMA AttCore == \A E, a : Attacks(E, a) <=> Attacks(E \cap A, a)
  BY Shape DEF Attacks, Att

THEOREM CompleteLift ==
  \A E : Complete(E, A \cup S) <=> /\ Complete(E \cap A, A)
                                   /\ E = LiftCO(E \cap A)
<1> TAKE E
<1>1. ASSUME Complete(E, A \cup S)
      PROVE  Complete(E \cap A, A) /\ E = LiftCO(E \cap A)
  <2>1. E \subseteq A \cup S /\ CF(E) /\ \A a \in A \cup S : (a \in E) <=> Defended(E, a, A \cup S)
    BY <1>1 DEF Complete
  <2>2. CF(E \cap A)
    BY <2>1 DEF CF
  <2>3. \A a \in A : (a \in E \cap A) <=> Defended(E \cap A, a, A)
    BY <2>1, DefCore
  <2>4. \A s \in S : (s \in E) <=> Defended(E \cap A, s, A)
    BY <2>1, DefCore
  <2>5. E = LiftCO(E \cap A)
    BY <2>1, <2>4, Disjoint DEF LiftCO
  <2> QED BY <2>2, <2>3, <2>5 DEF Complete
<1>2. ASSUME Complete(E \cap A, A), E = LiftCO(E \cap A)
      PROVE  Complete(E, A \cup S)
  <2>1. CF(E \cap A) /\ \A a \in A : (a \in E \cap A) <=> Defended(E \cap A, a, A)
    BY <1>2 DEF Complete
  <2>2. E \subseteq A \cup S
    BY <1>2 DEF LiftCO
  <2>3. \A s \in S : (s \in E) <=> Defended(E \cap A, s, A)
    BY <1>2, Disjoint DEF LiftCO
  <2>4. CF(E)
    <3> SUFFICES ASSUME NEW a \in E, NEW b \in E, Att(a, b) PROVE FALSE
      BY DEF CF
    <3>1. a \in E \cap A
      BY Shape
    <3>2. CASE b \in A
      BY <3>1, <3>2, <2>1 DEF CF
    <3>3. CASE b \in S
      <4>1. Defended(E \cap A, b, A)
        BY <3>3, <2>3
      <4>2. Attacks(E \cap A, a)
        BY <4>1, <3>1 DEF Defended
      <4> QED BY <4>2, <3>1, <2>1 DEF CF, Attacks
    <3> QED BY <3>2, <3>3, <2>2
  <2>5. \A a \in A \cup S : (a \in E) <=> Defended(E, a, A \cup S)
    BY <2>1, <2>3, DefCore
  <2> QED BY <2>2, <2>4, <2>5 DEF Complete
<1> QED BY <1>1, <1>2

THEOREM StableLift ==
  \A E : Stable(E, A \cup S) <=> /\ Stable(E \cap A, A)
                                 /\ E = LiftST(E \cap A)
<1> TAKE E
<1>1. ASSUME Stable(E, A \cup S)
      PROVE  Stable(E \cap A, A) /\ E = LiftST(E \cap A)
  <2>1. E \subseteq A \cup S /\ CF(E) /\ \A a \in (A \cup S) \ E : Attacks(E, a)
    BY <1>1 DEF Stable
  <2>2. CF(E \cap A)
    BY <2>1 DEF CF
  <2>3. \A a \in A \ (E \cap A) : Attacks(E \cap A, a)
    BY <2>1, AttCore
  <2>4. \A s \in S : (s \in E) <=> ~Attacks(E \cap A, s)
    <3> TAKE s \in S
    <3>1. s \notin E => Attacks(E \cap A, s)
      BY <2>1, AttCore
    <3>2. s \in E => ~Attacks(E \cap A, s)
      BY <2>1 DEF CF, Attacks
    <3> QED BY <3>1, <3>2
  <2>5. E = LiftST(E \cap A)
    BY <2>1, <2>4, Disjoint DEF LiftST
  <2> QED BY <2>2, <2>3, <2>5 DEF Stable
<1>2. ASSUME Stable(E \cap A, A), E = LiftST(E \cap A)
      PROVE  Stable(E, A \cup S)
  <2>1. CF(E \cap A) /\ \A a \in A \ (E \cap A) : Attacks(E \cap A, a)
    BY <1>2 DEF Stable
  <2>2. E \subseteq A \cup S
    BY <1>2 DEF LiftST
  <2>3. \A s \in S : (s \in E) <=> ~Attacks(E \cap A, s)
    BY <1>2, Disjoint DEF LiftST
  <2>4. CF(E)
    <3> SUFFICES ASSUME NEW a \in E, NEW b \in E, Att(a, b) PROVE FALSE
      BY DEF CF
    <3>1. a \in E \cap A
      BY Shape
    <3>2. CASE b \in A
      BY <3>1, <3>2, <2>1 DEF CF
    <3>3. CASE b \in S
      BY <3>1, <3>3, <2>3 DEF Attacks
    <3> QED BY <3>2, <3>3, <2>2
  <2>5. \A a \in (A \cup S) \ E : Attacks(E, a)
    BY <2>1, <2>3, AttCore
  <2> QED BY <2>2, <2>4, <2>5 DEF Stable
<1> QED BY <1>1, <1>2

(* ---- the lift is an order isomorphism between the complete extensions of the core and of the padded framework ---- *)
LEMMA LiftMonotone == \A C, D : C \subseteq D => LiftCO(C) \subseteq LiftCO(D)
  BY DEF LiftCO, Defended, Attacks

LEMMA LiftCore == \A C : C \subseteq A => LiftCO(C) \cap A = C
  BY Disjoint DEF LiftCO

LEMMA LiftComplete == \A C : Complete(C, A) => Complete(LiftCO(C), A \cup S)
<1> TAKE C
<1> HAVE Complete(C, A)
<1>1. C \subseteq A
  BY DEF Complete
<1>2. LiftCO(C) \cap A = C
  BY <1>1, LiftCore
<1> QED BY <1>2, CompleteLift

MaxComplete(E, X) == Complete(E, X) /\ \A F : (Complete(F, X) /\ E \subseteq F) => F = E
LeastComplete(E, X) == Complete(E, X) /\ \A F : Complete(F, X) => E \subseteq F

(* preferred extensions (the maximal complete extensions) *)
THEOREM PreferredLift ==
  \A E : MaxComplete(E, A \cup S) <=> /\ MaxComplete(E \cap A, A)
                                      /\ E = LiftCO(E \cap A)
<1> TAKE E
<1>1. ASSUME MaxComplete(E, A \cup S)
      PROVE  MaxComplete(E \cap A, A) /\ E = LiftCO(E \cap A)
  <2>1. Complete(E \cap A, A) /\ E = LiftCO(E \cap A)
    BY <1>1, CompleteLift DEF MaxComplete
  <2>2. ASSUME NEW F, Complete(F, A), E \cap A \subseteq F
        PROVE  F = E \cap A
    <3>1. Complete(LiftCO(F), A \cup S)
      BY <2>2, LiftComplete
    <3>2. E \subseteq LiftCO(F)
      BY <2>1, <2>2, LiftMonotone
    <3>3. LiftCO(F) = E
      BY <3>1, <3>2, <1>1 DEF MaxComplete
    <3>4. LiftCO(F) \cap A = F
      BY <2>2, LiftCore DEF Complete
    <3> QED BY <3>3, <3>4
  <2> QED BY <2>1, <2>2 DEF MaxComplete
<1>2. ASSUME MaxComplete(E \cap A, A), E = LiftCO(E \cap A)
      PROVE  MaxComplete(E, A \cup S)
  <2>1. Complete(E, A \cup S)
    BY <1>2, CompleteLift DEF MaxComplete
  <2>2. ASSUME NEW F, Complete(F, A \cup S), E \subseteq F
        PROVE  F = E
    <3>1. Complete(F \cap A, A) /\ F = LiftCO(F \cap A)
      BY <2>2, CompleteLift
    <3>2. E \cap A \subseteq F \cap A
      BY <2>2
    <3>3. F \cap A = E \cap A
      BY <3>1, <3>2, <1>2 DEF MaxComplete
    <3> QED BY <3>1, <3>3, <1>2
  <2> QED BY <2>1, <2>2 DEF MaxComplete
<1> QED BY <1>1, <1>2

(* the grounded extension (the least complete extension) *)
THEOREM GroundedLift ==
  \A E : LeastComplete(E, A \cup S) <=> /\ LeastComplete(E \cap A, A)
                                        /\ E = LiftCO(E \cap A)
<1> TAKE E
<1>1. ASSUME LeastComplete(E, A \cup S)
      PROVE  LeastComplete(E \cap A, A) /\ E = LiftCO(E \cap A)
  <2>1. Complete(E \cap A, A) /\ E = LiftCO(E \cap A)
    BY <1>1, CompleteLift DEF LeastComplete
  <2>2. ASSUME NEW F, Complete(F, A)
        PROVE  E \cap A \subseteq F
    <3>1. Complete(LiftCO(F), A \cup S)
      BY <2>2, LiftComplete
    <3>2. E \subseteq LiftCO(F)
      BY <3>1, <1>1 DEF LeastComplete
    <3>3. LiftCO(F) \cap A = F
      BY <2>2, LiftCore DEF Complete
    <3> QED BY <3>2, <3>3
  <2> QED BY <2>1, <2>2 DEF LeastComplete
<1>2. ASSUME LeastComplete(E \cap A, A), E = LiftCO(E \cap A)
      PROVE  LeastComplete(E, A \cup S)
  <2>1. Complete(E, A \cup S)
    BY <1>2, CompleteLift DEF LeastComplete
  <2>2. ASSUME NEW F, Complete(F, A \cup S)
        PROVE  E \subseteq F
    <3>1. Complete(F \cap A, A) /\ F = LiftCO(F \cap A)
      BY <2>2, CompleteLift
    <3>2. E \cap A \subseteq F \cap A
      BY <3>1, <1>2 DEF LeastComplete
    <3>3. LiftCO(E \cap A) \subseteq LiftCO(F \cap A)
      BY <3>2, LiftMonotone
    <3> QED BY <3>1, <3>3, <1>2
  <2> QED BY <2>1, <2>2 DEF LeastComplete
<1> QED BY <1>1, <1>2

(* consequence used by the judges: acceptance of a core argument is decided by the core (directionality for sinks) *)
THEOREM CoreStatus ==
  \A a \in A :
     /\ (\E E : Complete(E, A \cup S) /\ a \in E) <=> (\E C : Complete(C, A) /\ a \in C)
     /\ (\A E : Complete(E, A \cup S) => a \in E) <=> (\A C : Complete(C, A) => a \in C)
     /\ (\E E : Stable(E, A \cup S) /\ a \in E) <=> (\E C : Stable(C, A) /\ a \in C)
     /\ (\A E : Stable(E, A \cup S) => a \in E) <=> (\A C : Stable(C, A) => a \in C)
     /\ (\E E : MaxComplete(E, A \cup S) /\ a \in E) <=> (\E C : MaxComplete(C, A) /\ a \in C)
     /\ (\A E : MaxComplete(E, A \cup S) => a \in E) <=> (\A C : MaxComplete(C, A) => a \in C)
<1> TAKE a \in A
<1>0. \A C : C \subseteq A => LiftST(C) \cap A = C
  BY Disjoint DEF LiftST
<1>1. (\E E : Complete(E, A \cup S) /\ a \in E) <=> (\E C : Complete(C, A) /\ a \in C)
  <2>1. ASSUME NEW E, Complete(E, A \cup S), a \in E PROVE \E C : Complete(C, A) /\ a \in C
    BY <2>1, CompleteLift
  <2>2. ASSUME NEW C, Complete(C, A), a \in C PROVE \E E : Complete(E, A \cup S) /\ a \in E
    BY <2>2, LiftComplete DEF LiftCO
  <2> QED BY <2>1, <2>2
<1>2. (\A E : Complete(E, A \cup S) => a \in E) <=> (\A C : Complete(C, A) => a \in C)
  <2>1. ASSUME \A E : Complete(E, A \cup S) => a \in E, NEW C, Complete(C, A) PROVE a \in C
    <3>1. a \in LiftCO(C)
      BY <2>1, LiftComplete
    <3> QED BY <3>1, <2>1, LiftCore DEF Complete
  <2>2. ASSUME \A C : Complete(C, A) => a \in C, NEW E, Complete(E, A \cup S) PROVE a \in E
    BY <2>2, CompleteLift
  <2> QED BY <2>1, <2>2
<1>3. (\E E : Stable(E, A \cup S) /\ a \in E) <=> (\E C : Stable(C, A) /\ a \in C)
  <2>1. ASSUME NEW E, Stable(E, A \cup S), a \in E PROVE \E C : Stable(C, A) /\ a \in C
    BY <2>1, StableLift
  <2>2. ASSUME NEW C, Stable(C, A), a \in C PROVE \E E : Stable(E, A \cup S) /\ a \in E
    <3>1. C \subseteq A
      BY <2>2 DEF Stable
    <3>2. LiftST(C) \cap A = C
      BY <3>1, <1>0
    <3>3. Stable(LiftST(C), A \cup S)
      BY <3>2, <2>2, StableLift
    <3> QED BY <3>3, <3>2, <2>2
  <2> QED BY <2>1, <2>2
<1>4. (\A E : Stable(E, A \cup S) => a \in E) <=> (\A C : Stable(C, A) => a \in C)
  <2>1. ASSUME \A E : Stable(E, A \cup S) => a \in E, NEW C, Stable(C, A) PROVE a \in C
    <3>1. C \subseteq A
      BY <2>1 DEF Stable
    <3>2. LiftST(C) \cap A = C
      BY <3>1, <1>0
    <3>3. Stable(LiftST(C), A \cup S)
      BY <3>2, <2>1, StableLift
    <3> QED BY <3>3, <3>2, <2>1
  <2>2. ASSUME \A C : Stable(C, A) => a \in C, NEW E, Stable(E, A \cup S) PROVE a \in E
    BY <2>2, StableLift
  <2> QED BY <2>1, <2>2
<1>5. (\E E : MaxComplete(E, A \cup S) /\ a \in E) <=> (\E C : MaxComplete(C, A) /\ a \in C)
  <2>1. ASSUME NEW E, MaxComplete(E, A \cup S), a \in E PROVE \E C : MaxComplete(C, A) /\ a \in C
    BY <2>1, PreferredLift
  <2>2. ASSUME NEW C, MaxComplete(C, A), a \in C PROVE \E E : MaxComplete(E, A \cup S) /\ a \in E
    <3>1. C \subseteq A
      BY <2>2 DEF MaxComplete, Complete
    <3>2. LiftCO(C) \cap A = C
      BY <3>1, LiftCore
    <3>3. MaxComplete(LiftCO(C), A \cup S)
      BY <3>2, <2>2, PreferredLift
    <3> QED BY <3>3, <3>2, <2>2
  <2> QED BY <2>1, <2>2
<1>6. (\A E : MaxComplete(E, A \cup S) => a \in E) <=> (\A C : MaxComplete(C, A) => a \in C)
  <2>1. ASSUME \A E : MaxComplete(E, A \cup S) => a \in E, NEW C, MaxComplete(C, A) PROVE a \in C
    <3>1. C \subseteq A
      BY <2>1 DEF MaxComplete, Complete
    <3>2. LiftCO(C) \cap A = C
      BY <3>1, LiftCore
    <3>3. MaxComplete(LiftCO(C), A \cup S)
      BY <3>2, <2>1, PreferredLift
    <3> QED BY <3>3, <3>2, <2>1
  <2>2. ASSUME \A C : MaxComplete(C, A) => a \in C, NEW E, MaxComplete(E, A \cup S) PROVE a \in E
    BY <2>2, PreferredLift
  <2> QED BY <2>1, <2>2
<1> QED BY <1>1, <1>2, <1>3, <1>4, <1>5, <1>6
=============================================================================
