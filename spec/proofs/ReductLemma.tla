----------------------------- MODULE ReductLemma -----------------------------
(***************************************************************************)
(* Unbounded proof (TLAPS) of the grounded-reduct lemma used by the judges *)
(* (Meta!FamByReduct): let G be an admissible set contained in every       *)
(* complete extension (the grounded extension is one: MCDung invariants    *)
(* GRLeastComplete / ReductTheorem), Gp the arguments G attacks and        *)
(* U = A \ (G \cup Gp) the undecided arguments.  Then                      *)
(*   E is complete (stable, preferred, least complete) in the framework    *)
(*   iff  G \subseteq E \subseteq G \cup U  and  E \cap U is complete      *)
(*   (stable, preferred, least complete) in the framework restricted to U. *)
(* MCDung checks the same statement (and the semi-stable and ideal cases)  *)
(* on all frameworks of at most 4 arguments.                               *)
(***************************************************************************)
CONSTANTS A, R, G
Att(a, b) == <<a, b>> \in R
CF(E) == \A a \in E : \A b \in E : ~Att(a, b)
Attacks(E, b) == \E c \in E : Att(c, b)
Defended(E, a, X) == \A b \in X : Att(b, a) => Attacks(E, b)
Complete(E, X) == /\ E \subseteq X
                  /\ CF(E)
                  /\ \A a \in X : (a \in E) <=> Defended(E, a, X)
Stable(E, X) == /\ E \subseteq X
                /\ CF(E)
                /\ \A a \in X \ E : Attacks(E, a)
MaxComplete(E, X) == Complete(E, X) /\ \A F : (Complete(F, X) /\ E \subseteq F) => F = E
LeastComplete(E, X) == Complete(E, X) /\ \A F : Complete(F, X) => E \subseteq F

Gp == {b \in A : Attacks(G, b)}
U == A \ (G \cup Gp)

ASSUME Shape == \A a, b : Att(a, b) => (a \in A /\ b \in A)
ASSUME GSub == G \subseteq A
ASSUME GCF == CF(G)
ASSUME GAdm == \A g \in G : \A b \in A : Att(b, g) => Attacks(G, b)
ASSUME GInAll == \A E : Complete(E, A) => G \subseteq E

LEMMA UFacts == /\ U \subseteq A
                /\ \A u \in U : u \notin G /\ ~Attacks(G, u)
                /\ \A u \in U : \A g \in G : ~Att(u, g)
<1>1. U \subseteq A /\ \A u \in U : u \notin G /\ ~Attacks(G, u)
  BY DEF U, Gp
<1>2. ASSUME NEW u \in U, NEW g \in G, Att(u, g) PROVE FALSE
  <2>1. Attacks(G, u)
    BY <1>2, <1>1, GAdm
  <2> QED BY <2>1, <1>1
<1> QED BY <1>1, <1>2

LEMMA StableIsComplete == \A E : Stable(E, A) => Complete(E, A)
<1> TAKE E
<1> HAVE Stable(E, A)
<1>1. E \subseteq A /\ CF(E) /\ \A a \in A \ E : Attacks(E, a)
  BY DEF Stable
<1>2. ASSUME NEW a \in A, a \in E PROVE Defended(E, a, A)
  <2> SUFFICES ASSUME NEW b \in A, Att(b, a) PROVE Attacks(E, b)
    BY DEF Defended
  <2>1. b \notin E
    BY <1>1, <1>2 DEF CF
  <2> QED BY <2>1, <1>1
<1>3. ASSUME NEW a \in A, Defended(E, a, A) PROVE a \in E
  <2>1. CASE a \notin E
    <3>1. PICK c \in E : Att(c, a)
      BY <2>1, <1>1 DEF Attacks
    <3>2. Attacks(E, c)
      BY <3>1, <1>3, <1>1 DEF Defended
    <3> QED BY <3>1, <3>2, <1>1 DEF CF, Attacks
  <2> QED BY <2>1
<1> QED BY <1>1, <1>2, <1>3 DEF Complete

THEOREM CompleteReduct ==
  \A E : Complete(E, A) <=> /\ G \subseteq E
                            /\ E \subseteq G \cup U
                            /\ Complete(E \cap U, U)
<1> TAKE E
<1>1. ASSUME Complete(E, A)
      PROVE  G \subseteq E /\ E \subseteq G \cup U /\ Complete(E \cap U, U)
  <2>1. E \subseteq A /\ CF(E) /\ \A a \in A : (a \in E) <=> Defended(E, a, A)
    BY <1>1 DEF Complete
  <2>2. G \subseteq E
    BY <1>1, GInAll
  <2>3. E \cap Gp = {}
    BY <2>1, <2>2 DEF Gp, CF, Attacks
  <2>4. E \subseteq G \cup U
    BY <2>1, <2>3 DEF U
  <2>5. CF(E \cap U)
    BY <2>1 DEF CF
  <2>6. ASSUME NEW a \in U PROVE Defended(E, a, A) <=> Defended(E \cap U, a, U)
    <3>1. ASSUME Defended(E, a, A) PROVE Defended(E \cap U, a, U)
      <4> SUFFICES ASSUME NEW b \in U, Att(b, a) PROVE Attacks(E \cap U, b)
        BY DEF Defended
      <4>1. PICK c \in E : Att(c, b)
        BY <3>1, UFacts DEF Defended, Attacks
      <4>2. c \notin G
        BY <4>1, UFacts DEF Attacks
      <4>3. c \in U
        BY <4>1, <4>2, <2>4
      <4> QED BY <4>1, <4>3 DEF Attacks
    <3>2. ASSUME Defended(E \cap U, a, U) PROVE Defended(E, a, A)
      <4> SUFFICES ASSUME NEW b \in A, Att(b, a) PROVE Attacks(E, b)
        BY DEF Defended
      <4>1. b \notin G
        BY UFacts DEF Attacks
      <4>2. CASE b \in Gp
        BY <4>2, <2>2 DEF Gp, Attacks
      <4>3. CASE b \in U
        BY <4>3, <3>2 DEF Defended, Attacks
      <4> QED BY <4>1, <4>2, <4>3 DEF U
    <3> QED BY <3>1, <3>2
  <2>7. \A a \in U : (a \in E \cap U) <=> Defended(E \cap U, a, U)
    BY <2>1, <2>6, UFacts
  <2> QED BY <2>2, <2>4, <2>5, <2>7 DEF Complete
<1>2. ASSUME G \subseteq E, E \subseteq G \cup U, Complete(E \cap U, U)
      PROVE  Complete(E, A)
  <2>1. CF(E \cap U) /\ \A a \in U : (a \in E \cap U) <=> Defended(E \cap U, a, U)
    BY <1>2 DEF Complete
  <2>2. E \subseteq A
    BY <1>2, GSub, UFacts
  <2>3. CF(E)
    <3> SUFFICES ASSUME NEW a \in E, NEW b \in E, Att(a, b) PROVE FALSE
      BY DEF CF
    <3>1. CASE a \in G /\ b \in G
      BY <3>1, GCF DEF CF
    <3>2. CASE a \in G /\ b \in U
      BY <3>2, UFacts DEF Attacks
    <3>3. CASE a \in U /\ b \in G
      BY <3>3, UFacts
    <3>4. CASE a \in U /\ b \in U
      BY <3>4, <2>1 DEF CF
    <3> QED BY <3>1, <3>2, <3>3, <3>4, <1>2
  <2>4. ASSUME NEW a \in U PROVE Defended(E, a, A) <=> Defended(E \cap U, a, U)
    <3>1. ASSUME Defended(E, a, A) PROVE Defended(E \cap U, a, U)
      <4> SUFFICES ASSUME NEW b \in U, Att(b, a) PROVE Attacks(E \cap U, b)
        BY DEF Defended
      <4>1. PICK c \in E : Att(c, b)
        BY <3>1, UFacts DEF Defended, Attacks
      <4>2. c \notin G
        BY <4>1, UFacts DEF Attacks
      <4>3. c \in U
        BY <4>1, <4>2, <1>2
      <4> QED BY <4>1, <4>3 DEF Attacks
    <3>2. ASSUME Defended(E \cap U, a, U) PROVE Defended(E, a, A)
      <4> SUFFICES ASSUME NEW b \in A, Att(b, a) PROVE Attacks(E, b)
        BY DEF Defended
      <4>1. b \notin G
        BY UFacts DEF Attacks
      <4>2. CASE b \in Gp
        BY <4>2, <1>2 DEF Gp, Attacks
      <4>3. CASE b \in U
        BY <4>3, <3>2 DEF Defended, Attacks
      <4> QED BY <4>1, <4>2, <4>3 DEF U
    <3> QED BY <3>1, <3>2
  <2>5. ASSUME NEW a \in A PROVE (a \in E) <=> Defended(E, a, A)
    <3>1. CASE a \in G
      <4>1. Defended(E, a, A)
        BY <3>1, <1>2, GAdm DEF Defended, Attacks
      <4> QED BY <4>1, <3>1, <1>2
    <3>2. CASE a \in Gp
      <4>1. PICK g \in G : Att(g, a)
        BY <3>2 DEF Gp, Attacks
      <4>2. ~Attacks(E, g)
        BY <4>1, <1>2, <2>3 DEF CF, Attacks
      <4>3. ~Defended(E, a, A)
        BY <4>1, <4>2, GSub DEF Defended
      <4>4. a \notin G
        BY <4>1, GCF DEF CF
      <4>5. a \notin U
        BY <3>2 DEF U
      <4>6. a \notin E
        BY <4>4, <4>5, <1>2
      <4> QED BY <4>3, <4>6
    <3>3. CASE a \in U
      BY <3>3, <2>4, <2>1
    <3> QED BY <3>1, <3>2, <3>3 DEF U
  <2> QED BY <2>2, <2>3, <2>5 DEF Complete
<1> QED BY <1>1, <1>2

THEOREM StableReduct ==
  \A E : Stable(E, A) <=> /\ G \subseteq E
                          /\ E \subseteq G \cup U
                          /\ Stable(E \cap U, U)
<1> TAKE E
<1>1. ASSUME Stable(E, A)
      PROVE  G \subseteq E /\ E \subseteq G \cup U /\ Stable(E \cap U, U)
  <2>1. Complete(E, A)
    BY <1>1, StableIsComplete
  <2>2. G \subseteq E /\ E \subseteq G \cup U /\ Complete(E \cap U, U)
    BY <2>1, CompleteReduct
  <2>3. CF(E \cap U)
    BY <2>2 DEF Complete
  <2>4. ASSUME NEW a \in U \ (E \cap U) PROVE Attacks(E \cap U, a)
    <3>1. a \in A \ E
      BY UFacts
    <3>2. PICK c \in E : Att(c, a)
      BY <3>1, <1>1 DEF Stable, Attacks
    <3>3. c \notin G
      BY <3>2, UFacts DEF Attacks
    <3> QED BY <3>2, <3>3, <2>2 DEF Attacks
  <2> QED BY <2>2, <2>3, <2>4 DEF Stable
<1>2. ASSUME G \subseteq E, E \subseteq G \cup U, Stable(E \cap U, U)
      PROVE  Stable(E, A)
  <2>1. CF(E \cap U) /\ \A a \in U \ (E \cap U) : Attacks(E \cap U, a)
    BY <1>2 DEF Stable
  <2>2. E \subseteq A
    BY <1>2, GSub, UFacts
  <2>3. CF(E)
    <3> SUFFICES ASSUME NEW a \in E, NEW b \in E, Att(a, b) PROVE FALSE
      BY DEF CF
    <3>1. CASE a \in G /\ b \in G
      BY <3>1, GCF DEF CF
    <3>2. CASE a \in G /\ b \in U
      BY <3>2, UFacts DEF Attacks
    <3>3. CASE a \in U /\ b \in G
      BY <3>3, UFacts
    <3>4. CASE a \in U /\ b \in U
      BY <3>4, <2>1 DEF CF
    <3> QED BY <3>1, <3>2, <3>3, <3>4, <1>2
  <2>4. ASSUME NEW a \in A \ E PROVE Attacks(E, a)
    <3>1. CASE a \in Gp
      BY <3>1, <1>2 DEF Gp, Attacks
    <3>2. CASE a \in U
      BY <3>2, <2>1 DEF Attacks
    <3> QED BY <3>1, <3>2, <1>2 DEF U
  <2> QED BY <2>2, <2>3, <2>4 DEF Stable
<1> QED BY <1>1, <1>2

(* E' |-> G \cup E' is an order isomorphism between the complete extensions of the reduct and those of the framework *)
LEMMA GlueComplete == \A C : Complete(C, U) => (Complete(G \cup C, A) /\ (G \cup C) \cap U = C)
<1> TAKE C
<1> HAVE Complete(C, U)
<1>1. C \subseteq U
  BY DEF Complete
<1>2. (G \cup C) \cap U = C
  BY <1>1, UFacts
<1>3. G \subseteq G \cup C /\ G \cup C \subseteq G \cup U
  BY <1>1
<1> QED BY <1>2, <1>3, CompleteReduct

THEOREM PreferredReduct ==
  \A E : MaxComplete(E, A) <=> /\ G \subseteq E
                               /\ E \subseteq G \cup U
                               /\ MaxComplete(E \cap U, U)
<1> TAKE E
<1>1. ASSUME MaxComplete(E, A)
      PROVE  G \subseteq E /\ E \subseteq G \cup U /\ MaxComplete(E \cap U, U)
  <2>1. G \subseteq E /\ E \subseteq G \cup U /\ Complete(E \cap U, U)
    BY <1>1, CompleteReduct DEF MaxComplete
  <2>2. ASSUME NEW F, Complete(F, U), E \cap U \subseteq F PROVE F = E \cap U
    <3>1. Complete(G \cup F, A) /\ (G \cup F) \cap U = F
      BY <2>2, GlueComplete
    <3>2. E \subseteq G \cup F
      BY <2>1, <2>2
    <3>3. G \cup F = E
      BY <3>1, <3>2, <1>1 DEF MaxComplete
    <3> QED BY <3>1, <3>3
  <2> QED BY <2>1, <2>2 DEF MaxComplete
<1>2. ASSUME G \subseteq E, E \subseteq G \cup U, MaxComplete(E \cap U, U)
      PROVE  MaxComplete(E, A)
  <2>1. Complete(E, A)
    BY <1>2, CompleteReduct DEF MaxComplete
  <2>2. ASSUME NEW F, Complete(F, A), E \subseteq F PROVE F = E
    <3>1. G \subseteq F /\ F \subseteq G \cup U /\ Complete(F \cap U, U)
      BY <2>2, CompleteReduct
    <3>2. E \cap U \subseteq F \cap U
      BY <2>2
    <3>3. F \cap U = E \cap U
      BY <3>1, <3>2, <1>2 DEF MaxComplete
    <3>4. F = G \cup (F \cap U) /\ E = G \cup (E \cap U)
      BY <3>1, <1>2, UFacts
    <3> QED BY <3>3, <3>4
  <2> QED BY <2>1, <2>2 DEF MaxComplete
<1> QED BY <1>1, <1>2

THEOREM GroundedReduct ==
  \A E : LeastComplete(E, A) <=> /\ G \subseteq E
                                 /\ E \subseteq G \cup U
                                 /\ LeastComplete(E \cap U, U)
<1> TAKE E
<1>1. ASSUME LeastComplete(E, A)
      PROVE  G \subseteq E /\ E \subseteq G \cup U /\ LeastComplete(E \cap U, U)
  <2>1. G \subseteq E /\ E \subseteq G \cup U /\ Complete(E \cap U, U)
    BY <1>1, CompleteReduct DEF LeastComplete
  <2>2. ASSUME NEW F, Complete(F, U) PROVE E \cap U \subseteq F
    <3>1. Complete(G \cup F, A) /\ (G \cup F) \cap U = F
      BY <2>2, GlueComplete
    <3>2. E \subseteq G \cup F
      BY <3>1, <1>1 DEF LeastComplete
    <3> QED BY <3>1, <3>2
  <2> QED BY <2>1, <2>2 DEF LeastComplete
<1>2. ASSUME G \subseteq E, E \subseteq G \cup U, LeastComplete(E \cap U, U)
      PROVE  LeastComplete(E, A)
  <2>1. Complete(E, A)
    BY <1>2, CompleteReduct DEF LeastComplete
  <2>2. ASSUME NEW F, Complete(F, A) PROVE E \subseteq F
    <3>1. G \subseteq F /\ Complete(F \cap U, U)
      BY <2>2, CompleteReduct
    <3>2. E \cap U \subseteq F \cap U
      BY <3>1, <1>2 DEF LeastComplete
    <3>3. E = G \cup (E \cap U)
      BY <1>2, UFacts
    <3> QED BY <3>1, <3>2, <3>3
  <2> QED BY <2>1, <2>2 DEF LeastComplete
<1> QED BY <1>1, <1>2
=============================================================================
