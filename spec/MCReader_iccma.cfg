CONSTANTS MaxLines = 3
  Fmt = "iccma"
SPECIFICATION Spec
INVARIANT MachineConforms
INVARIANT Export
CHECK_DEADLOCK FALSE
