----------------------------- MODULE StaticRange -----------------------------
(***************************************************************************)
(* S2 (range-based semantics): MaximalRangeSemanticsHelper over a SAT      *)
(* oracle -- semi-stable (base = complete sets) and stage (base =          *)
(* conflict-free sets) on one connected component.                         *)
(*   new_maximal_extension_computer: grow the RANGE from the grounded      *)
(*   extension with range-blocking clauses until UNSAT (Maximal);          *)
(*   check_acceptance_in_cc: at each maximal range, test the extension,    *)
(*   else search an extension of the SAME range containing / avoiding the  *)
(*   queried arguments (blocking clauses switched off by assuming the      *)
(*   selector), else discard the range and start a new search.             *)
(* A SAT model is a pair <<S, R>>: S in the base family, R the set of      *)
(* arguments whose range variable is true, S \subseteq R \subseteq         *)
(* Range(S); with ExactRange (aux_var encodings) R = Range(S).             *)
(***************************************************************************)
EXTENDS Dung, TLC, Sequences, FiniteSets
CONSTANTS N, Modes, Bases, ExactRange, Faults
Args == 1..N
VARIABLES af, base, mode, A, st, cur, curR, blocked, calls, res, cert, aborted
vars == <<af, base, mode, A, st, cur, curR, blocked, calls, res, cert, aborted>>

NoRes == [k |-> "none", v |-> {}]
NoCert == [has |-> FALSE, v |-> {}]
SetRes(S) == [k |-> "set", v |-> S]
Stat(x) == [k |-> x, v |-> {}]
CertOf(S) == [has |-> TRUE, v |-> S]
Sem == IF base = "CO" THEN "SST" ELSE "STG"

BaseSets == BaseFam(af, base)
ModelsAll == {<<S, R>> \in BaseSets \X (SUBSET Args) :
                 S \subseteq R /\ R \subseteq RangeOf(af, S) /\ (ExactRange => R = RangeOf(af, S))}
NotBlocked(R, B) == \A X \in B : ~(R \subseteq X)

Init ==
  /\ af \in {[args |-> Args, att |-> R] : R \in SUBSET (Args \X Args)}
  /\ base \in Bases /\ mode \in Modes
  /\ A \in IF mode = "SE" THEN {{}} ELSE {{a} : a \in Args} \cup {{a, b} : a \in Args, b \in Args}
  /\ st = "Init" /\ cur = {} /\ curR = {} /\ blocked = {} /\ calls = 0
  /\ res = NoRes /\ cert = NoCert /\ aborted = FALSE
Running == res = NoRes /\ ~aborted

Fail == Faults /\ Running /\ st \in {"Inter", "Maximal", "Checked"} /\ aborted' = TRUE
        /\ UNCHANGED <<af, base, mode, A, st, cur, curR, blocked, calls, res, cert>>

Ground == /\ Running /\ st = "Init" /\ cur' = Grounded(af) /\ curR' = RangeOf(af, Grounded(af)) /\ st' = "Inter"
          /\ UNCHANGED <<af, base, mode, A, blocked, calls, res, cert, aborted>>

Increase == /\ Running /\ st = "Inter"
            /\ blocked' = blocked \cup {curR} /\ calls' = calls + 1
            /\ LET ms == {m \in ModelsAll : curR \subseteq m[2] /\ NotBlocked(m[2], blocked \cup {curR})} IN
               \/ /\ ms = {} /\ st' = "Maximal" /\ UNCHANGED <<cur, curR>>
               \/ \E m \in ms : cur' = m[1] /\ curR' = m[2] /\ st' = "Inter"
            /\ UNCHANGED <<af, base, mode, A, res, cert, aborted>>

IsCred == mode = "DC"
Good(S) == IF IsCred THEN S \cap A # {} ELSE S \cap A = {}
Answer == IF IsCred THEN "yes" ELSE "no"
Opposite == IF IsCred THEN "no" ELSE "yes"

AtMaximal ==
  /\ Running /\ st = "Maximal"
  /\ IF mode = "SE" THEN res' = SetRes(cur) /\ UNCHANGED <<st, calls, cert>>
     ELSE IF Good(cur) THEN res' = Stat(Answer) /\ cert' = CertOf(cur) /\ UNCHANGED <<st, calls>>
     ELSE \* same-range search, blocking clauses disabled
          /\ calls' = calls + 1
          /\ LET ms == {m \in ModelsAll : m[2] = curR /\ Good(m[1])} IN
             \/ /\ ms = {} /\ st' = "Checked" /\ UNCHANGED <<res, cert>>
             \/ \E m \in ms : res' = Stat(Answer) /\ cert' = CertOf(m[1]) /\ UNCHANGED st
  /\ UNCHANGED <<af, base, mode, A, cur, curR, blocked, aborted>>

(* discard_maximal_and_new_search *)
NewSearch ==
  /\ Running /\ st = "Checked"
  /\ blocked' = blocked \cup {curR} /\ calls' = calls + 1
  /\ LET ms == {m \in ModelsAll : NotBlocked(m[2], blocked \cup {curR})} IN
     \/ /\ ms = {} /\ st' = "None" /\ UNCHANGED <<cur, curR>>
     \/ \E m \in ms : cur' = m[1] /\ curR' = m[2] /\ st' = "Inter"
  /\ UNCHANGED <<af, base, mode, A, res, cert, aborted>>

AtNone == /\ Running /\ st = "None" /\ res' = Stat(Opposite)
          /\ UNCHANGED <<af, base, mode, A, st, cur, curR, blocked, calls, cert, aborted>>

Step == Ground \/ Increase \/ AtMaximal \/ NewSearch \/ AtNone
Next == Step \/ Fail
Spec == Init /\ [][Next]_vars /\ WF_vars(Step)

Done == res # NoRes
Correct ==
  Done =>
    IF mode = "SE" THEN res.k = "set" /\ res.v \in Fam(af, Sem)
    ELSE /\ res.k \in {"yes", "no"}
         /\ (res.k = "yes") = (IF IsCred THEN CredIn(Fam(af, Sem), A) ELSE SkepIn(Fam(af, Sem), A))
         /\ cert.has = (res.k = Answer)
         /\ cert.has => cert.v \in Fam(af, Sem) /\ Good(cert.v)
FaultNeverAnswers == aborted => res = NoRes /\ cert = NoCert
CallBound == calls <= (N + 2) * Cardinality(BaseSets) + 3
Terminates == <>(Done \/ aborted)
=============================================================================
