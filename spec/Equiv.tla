------------------------------- MODULE Equiv -------------------------------
(***************************************************************************)
(* S9: what the equivalence reduction may do (C19).  A reduction is given  *)
(* by its classes (the original arguments behind each reduced argument)    *)
(* and by the map from original arguments to reduced ones.                 *)
(***************************************************************************)
EXTENDS Dung
(* merged arguments belong to exactly the same complete extensions *)
SoundClasses(af, classes) == \A C \in classes : \A a \in C : \A b \in C : \A E \in CO(af) : (a \in E) <=> (b \in E)
(* consequences stated by the property: grounded arguments may all be merged, and so may the arguments they defeat *)
GroundedIsOneClassSound(af) == SoundClasses(af, {Grounded(af), AttackedBy(af, Grounded(af))})
(* the two mappings are total and inverse to each other at the level of classes *)
Partition(af, classes) == /\ UNION classes = af.args
                          /\ \A C \in classes : C # {}
                          /\ \A C \in classes : \A D \in classes : C = D \/ C \cap D = {}
=============================================================================
