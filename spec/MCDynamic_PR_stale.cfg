CONSTANTS Labels = {1, 2}
  MaxIds = 3
  MaxBuffer = 2
  Sem = "PR"
  StaleCertificate = TRUE
  ReissueRule = "code"
SPECIFICATION Spec
CHECK_DEADLOCK FALSE
INVARIANT AnswersAndCertificatesCorrect
INVARIANT SnapshotsCurrent
INVARIANT ModelsAreExtensions
INVARIANT CacheOnlyCurrent
