CONSTANTS NMax = 4
SPECIFICATION Spec
CHECK_DEADLOCK FALSE
INVARIANT ReductionSound
INVARIANT GroundedTogether
