CONSTANTS Labels = {1, 2}
  MaxBatch = 5
SPECIFICATION BSpec
CHECK_DEADLOCK FALSE
INVARIANT FoldOK
INVARIANT Export
