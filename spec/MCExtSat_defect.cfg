CONSTANTS Cap = 2
  MaxIn = 5
  MaxOut = 5
  ParentOrder = "WaitThenDrain"
SPECIFICATION PSpec
INVARIANT NoStuck
INVARIANT AllOutputRead
PROPERTY CallReturns
CHECK_DEADLOCK FALSE
