CONSTANTS Labels = {1, 2, 3}
  MaxIds = 3
  MaxBuffer = 2
  Sem = "CO"
  StaleCertificate = FALSE
  ReissueRule = "code"
SPECIFICATION Spec
CHECK_DEADLOCK FALSE
INVARIANT AnswersAndCertificatesCorrect
INVARIANT SnapshotsCurrent
INVARIANT ModelsAreExtensions
INVARIANT CacheOnlyCurrent
