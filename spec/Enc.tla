-------------------------------- MODULE Enc --------------------------------
(***************************************************************************)
(* S4: the CNF encoders as pure functions from a framework with compact    *)
(* ids (arguments 1..n, id = argument - 1) to a clause set and a variable  *)
(* layout, transcribed from src/encodings/*.rs (C10).                      *)
(*   aux_var : argument 2a, attacker disjunction P_a = 2a-1, range 2n+a    *)
(*   exp, hybrid, stable : argument a, range n+a; hybrid allocates the     *)
(*   disjunction variables lazily from n+1 (2n+1 with range variables)     *)
(* MCEnc checks by brute force, for all frameworks <= 3 arguments, that    *)
(* the models projected on the argument variables are exactly the intended *)
(* family and the three range clauses of the property.                     *)
(***************************************************************************)
EXTENDS Dung, Cnf, SequencesExt, FiniteSetsExt
CONSTANT HybridThreshold      \* 32 in the code

N(af) == Cardinality(af.args)
Att(af, a) == AttackersOf(af, a)

(* ---------------- aux_var ---------------- *)
AV(a) == 2 * a
AP(a) == 2 * a - 1
AR(af, a) == 2 * N(af) + a
AuxDisj(af, a) ==            \* P_a <-> OR(attackers of a), and a -> ~P_a
  {{-AV(a), -AP(a)}} \cup {{AP(a), -AV(b)} : b \in Att(af, a)} \cup {{-AP(a)} \cup {AV(b) : b \in Att(af, a)}}
AuxCF(af, a)  == {{-AV(a), -AV(b)} : b \in Att(af, a)}
AuxADM(af, a) == {{-AV(a), AP(b)} : b \in Att(af, a)}
AuxCO(af, a)  == AuxADM(af, a) \cup {{AV(a)} \cup {-AP(b) : b \in Att(af, a)}}
AuxRange(af, a) == {{-AV(a), AR(af, a)}, {-AP(a), AR(af, a)}, {-AR(af, a), AV(a), AP(a)}}
AuxVar(af, kind, range) ==
  UNION {(CASE kind = "cf"  -> AuxCF(af, a) \cup (IF range THEN AuxDisj(af, a) ELSE {})
            [] kind = "adm" -> AuxADM(af, a) \cup AuxDisj(af, a)
            [] kind = "co"  -> AuxCO(af, a) \cup AuxDisj(af, a))
         \cup (IF range THEN AuxRange(af, a) ELSE {}) : a \in af.args}

(* ---------------- exp ---------------- *)
EV(a) == a
ER(af, a) == N(af) + a
ExpCF(af, a) == {{-EV(a), -EV(b)} : b \in Att(af, a)}
(* all ways of picking one defender per attacker (cartesian product of the defender sets) *)
DefChoices(af, a) == {f \in [Att(af, a) -> af.args] : \A b \in Att(af, a) : f[b] \in Att(af, b)}
ExpNonTrivial(af, a) ==
  ExpCF(af, a) \cup {{-EV(a)} \cup {EV(d) : d \in Att(af, b)} : b \in Att(af, a)}
               \cup {{EV(a)} \cup {-EV(f[b]) : b \in Att(af, a)} : f \in DefChoices(af, a)}
ExpCO(af, a) ==
  IF Att(af, a) = {} THEN {{EV(a)}}
  ELSE IF \E b \in Att(af, a) : Att(af, b) = {} THEN {{-EV(a)}}
  ELSE ExpNonTrivial(af, a)
ExpRange(af, a) == {{-EV(a), ER(af, a)}, {-ER(af, a), EV(a)} \cup {EV(b) : b \in Att(af, a)}}
Exp(af, kind, range) ==
  UNION {(IF kind = "cf" THEN ExpCF(af, a) ELSE ExpCO(af, a)) \cup (IF range THEN ExpRange(af, a) ELSE {}) : a \in af.args}

(* ---------------- default stable ---------------- *)
Stable(af) ==
  UNION {(IF a \in Att(af, a) THEN {{-EV(a)}} ELSE {})
         \cup {{-EV(a), -EV(b)} : b \in Att(af, a) \ {a}}
         \cup {{EV(a)} \cup {EV(b) : b \in Att(af, a) \ {a}}} : a \in af.args}

(* ---------------- hybrid (sequential: disjunction variables are created lazily) ---------------- *)
RECURSIVE ProdSizes(_, _)
ProdSizes(af, S) == IF S = {} THEN 1 ELSE LET b == CHOOSE b \in S : TRUE IN Cardinality(Att(af, b)) * ProdSizes(af, S \ {b})
HDisj(af, b, v) == {{-EV(b), -v}} \cup {{v, -EV(c)} : c \in Att(af, b)} \cup {{-v} \cup {EV(c) : c \in Att(af, b)}}
(* state: [dv |-> function argument -> variable or 0, next |-> next free variable, cls |-> clauses] *)
RECURSIVE HAlloc(_, _, _)
HAlloc(af, st, todo) ==            \* attackers in increasing order (= iter_attacks_to order of a compact framework built in order)
  IF todo = {} THEN st
  ELSE LET b == CHOOSE b \in todo : \A c \in todo : b <= c IN
       IF st.dv[b] # 0 THEN HAlloc(af, st, todo \ {b})
       ELSE HAlloc(af, [dv |-> [st.dv EXCEPT ![b] = st.next], next |-> st.next + 1, cls |-> st.cls \cup HDisj(af, b, st.next)], todo \ {b})
HArg(af, st, a, range) ==
  LET st1 == IF Att(af, a) = {} THEN [st EXCEPT !.cls = st.cls \cup {{EV(a)}}]
             ELSE IF \E b \in Att(af, a) : Att(af, b) = {} THEN [st EXCEPT !.cls = st.cls \cup {{-EV(a)}}]
             ELSE IF ProdSizes(af, Att(af, a)) < HybridThreshold THEN [st EXCEPT !.cls = st.cls \cup ExpNonTrivial(af, a)]
             ELSE LET s2 == HAlloc(af, st, Att(af, a)) IN
                  [s2 EXCEPT !.cls = s2.cls \cup {{-EV(a), s2.dv[b]} : b \in Att(af, a)} \cup {{EV(a)} \cup {-s2.dv[b] : b \in Att(af, a)}}]
  IN IF ~range THEN st1
     ELSE IF st1.dv[a] # 0
          THEN [st1 EXCEPT !.cls = st1.cls \cup {{-EV(a), ER(af, a)}, {-st1.dv[a], ER(af, a)}, {-ER(af, a), EV(a), st1.dv[a]}}]
          ELSE [st1 EXCEPT !.cls = st1.cls \cup ExpRange(af, a)]
RECURSIVE HFold(_, _, _, _)
HFold(af, st, k, range) == IF k > N(af) THEN st ELSE HFold(af, HArg(af, st, k, range), k + 1, range)
Hybrid(af, range) ==
  HFold(af, [dv |-> [a \in af.args |-> 0], next |-> (IF range THEN 2 * N(af) ELSE N(af)) + 1, cls |-> {}], 1, range).cls

(* ---------------- one entry point ---------------- *)
Encode(af, enc, range) ==
  CASE enc = "aux_cf"  -> AuxVar(af, "cf", range)
    [] enc = "aux_adm" -> AuxVar(af, "adm", range)
    [] enc = "aux_co"  -> AuxVar(af, "co", range)
    [] enc = "exp_cf"  -> Exp(af, "cf", range)
    [] enc = "exp_co"  -> Exp(af, "co", range)
    [] enc = "hybrid"  -> Hybrid(af, range)
    [] enc = "stable"  -> Stable(af)
ArgVar(enc, a) == IF enc \in {"aux_cf", "aux_adm", "aux_co"} THEN AV(a) ELSE EV(a)
RangeVar(af, enc, a) == IF enc \in {"aux_cf", "aux_adm", "aux_co"} THEN AR(af, a) ELSE ER(af, a)
Intended(af, enc) ==
  CASE enc \in {"aux_cf", "exp_cf"} -> CF(af)
    [] enc = "aux_adm" -> ADM(af)
    [] enc \in {"aux_co", "exp_co", "hybrid"} -> CO(af)
    [] enc = "stable" -> ST(af)

(* C10 as a predicate over a clause set and a layout *)
SetOf(af, enc, m) == {a \in af.args : m[ArgVar(enc, a)]}
RangeSetOf(af, enc, m) == {a \in af.args : m[RangeVar(af, enc, a)]}
NVarsOf(cls) == MaxVarOf(cls)
EncodingCorrect(af, enc, range) ==
  LET cls == Encode(af, enc, range)
      n == Max({NVarsOf(cls)} \cup {ArgVar(enc, a) : a \in af.args} \cup (IF range THEN {RangeVar(af, enc, a) : a \in af.args} ELSE {}) \cup {1})
      ms == ModelsOf(cls, n)
  IN /\ {SetOf(af, enc, m) : m \in ms} = Intended(af, enc)
     /\ range => /\ \A m \in ms : RangeSetOf(af, enc, m) \subseteq RangeOf(af, SetOf(af, enc, m))
                 /\ \A S \in Intended(af, enc) : \E m \in ms : SetOf(af, enc, m) = S /\ RangeSetOf(af, enc, m) = RangeOf(af, S)
=============================================================================
