CONSTANTS MaxLines = 3
  Fmt = "apx"
SPECIFICATION Spec
INVARIANT MachineConforms
INVARIANT Export
CHECK_DEADLOCK FALSE
