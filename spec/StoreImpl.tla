----------------------------- MODULE StoreImpl -----------------------------
(***************************************************************************)
(* S1 (concrete): AAFramework / LabelSet transcribed method by method from *)
(* src/aa/aa_framework.rs and src/utils/label.rs: a label vector with      *)
(* holes, a label->id map, a tombstoned attack vector, per-id index        *)
(* vectors (with swap_remove, and the stale indices remove_argument leaves *)
(* in the *other* endpoint's vectors) and two removal counters.            *)
(* MCStoreImpl checks that it refines Store (the set model of C12) and     *)
(* that every public observation agrees with the abstract state.           *)
(* Vectors are 1-based sequences here; position k holds Rust index k-1.    *)
(***************************************************************************)
EXTENDS Naturals, FiniteSets, Sequences, SequencesExt, TLC
CONSTANT Labels
None == <<>>     \* Option::None; Some(x) is a non-empty tuple

NoId == 999999
S == INSTANCE Store WITH s <- "unused"

CInit == [labels |-> <<>>, l2i |-> <<>>, nRemoved |-> 0,
          attacks |-> <<>>, from |-> <<>>, to |-> <<>>, nRemAtt |-> 0]

Len0(c) == Len(c.labels) - c.nRemoved                      \* LabelSet::len
GetArg(c, l) == IF l \in DOMAIN c.l2i /\ c.labels[c.l2i[l] + 1] # None THEN c.l2i[l] ELSE NoId   \* get_label

SwapRemove(seq, pos) ==                                    \* Vec::swap_remove at 1-based position pos
  LET n == Len(seq) IN
  IF pos = n THEN SubSeq(seq, 1, n - 1)
  ELSE [k \in 1..(n - 1) |-> IF k = pos THEN seq[n] ELSE seq[k]]

PositionOf(seq, P(_)) == IF \E k \in 1..Len(seq) : P(seq[k])
                         THEN CHOOSE k \in 1..Len(seq) : P(seq[k]) /\ \A j \in 1..(k - 1) : ~P(seq[j])
                         ELSE 0

RECURSIVE Tombstone(_, _, _)
(* try_remove_attack over a list of attack indices *)
Tombstone(attacks, n, idxs) ==
  IF idxs = <<>> THEN [attacks |-> attacks, n |-> n]
  ELSE LET i == Head(idxs) IN
       IF attacks[i + 1] # None
       THEN Tombstone([attacks EXCEPT ![i + 1] = None], n + 1, Tail(idxs))
       ELSE Tombstone(attacks, n, Tail(idxs))

CStep(c, o) ==
  CASE o.op = "newarg" ->
         IF o.a \in DOMAIN c.l2i THEN [st |-> c, res |-> "ok"]
         ELSE [st |-> [c EXCEPT !.labels = Append(c.labels, <<o.a>>),
                                !.l2i = c.l2i @@ (o.a :> Len(c.labels)),
                                !.from = Append(c.from, <<>>), !.to = Append(c.to, <<>>)],
               res |-> "ok"]
    [] o.op = "rmarg" ->
         IF o.a \notin DOMAIN c.l2i THEN [st |-> c, res |-> "err"]
         ELSE LET id == c.l2i[o.a]
                  t  == Tombstone(c.attacks, c.nRemAtt, c.from[id + 1] \o c.to[id + 1])
              IN [st |-> [c EXCEPT !.l2i = [l \in DOMAIN c.l2i \ {o.a} |-> c.l2i[l]],
                                   !.nRemoved = c.nRemoved + 1,
                                   !.labels[id + 1] = None,
                                   !.attacks = t.attacks, !.nRemAtt = t.n,
                                   !.from[id + 1] = <<>>, !.to[id + 1] = <<>>],
                  res |-> "ok"]
    [] o.op = "newatt" ->
         LET a == GetArg(c, o.a)  b == GetArg(c, o.b) IN
         IF a = NoId \/ b = NoId THEN [st |-> c, res |-> "err"]
         ELSE IF \E k \in 1..Len(c.from[a + 1]) : c.attacks[c.from[a + 1][k] + 1] = <<a, b>>
              THEN [st |-> c, res |-> "ok"]
              ELSE LET idx == Len(c.attacks) IN
                   [st |-> [c EXCEPT !.attacks = Append(c.attacks, <<a, b>>),
                                     !.from[a + 1] = Append(c.from[a + 1], idx),
                                     !.to[b + 1] = Append(c.to[b + 1], idx)],
                    res |-> "ok"]
    [] o.op = "rmatt" ->
         LET a == GetArg(c, o.a)  b == GetArg(c, o.b) IN
         IF a = NoId \/ b = NoId THEN [st |-> c, res |-> "err"]
         ELSE LET IsIt(i) == c.attacks[i + 1] = <<a, b>>
                  pf == PositionOf(c.from[a + 1], IsIt)
              IN IF pf = 0 THEN [st |-> c, res |-> "err"]
                 ELSE LET aid == c.from[a + 1][pf]
                          Same(i) == i = aid
                          pt == PositionOf(c.to[b + 1], Same)       \* .unwrap(): pt = 0 would be a panic
                          to2 == [c.to EXCEPT ![b + 1] = SwapRemove(c.to[b + 1], pt)]
                          c2 == [c EXCEPT !.attacks[aid + 1] = None, !.to = to2]
                      IN IF pt = 0 THEN [st |-> c, res |-> "panic"]
                         ELSE [st |-> [c2 EXCEPT !.from[a + 1] = SwapRemove(c2.from[a + 1], pf),
                                                 !.nRemAtt = c.nRemAtt + 1],
                               res |-> "ok"]

(* ---- public observations of the concrete state ---- *)
CNArgs(c)    == Len0(c)
CNAttacks(c) == Len(c.attacks) - c.nRemAtt
CIterAttacks(c) == SelectSeq(c.attacks, LAMBDA x : x # None)
CIterVia(c, idxs) == SelectSeq([k \in 1..Len(idxs) |-> c.attacks[idxs[k] + 1]], LAMBDA x : x # None)
CIterFrom(c, id) == CIterVia(c, c.from[id + 1])
CIterTo(c, id)   == CIterVia(c, c.to[id + 1])
CHasId(c, id)    == id < Len(c.labels) /\ c.labels[id + 1] # None

(* ---- refinement mapping ---- *)
Abs(c) == [live |-> [l \in {x \in DOMAIN c.l2i : c.labels[c.l2i[x] + 1] # None} |-> c.l2i[l]],
           nextId |-> Len(c.labels),
           att |-> {c.attacks[k] : k \in {j \in 1..Len(c.attacks) : c.attacks[j] # None}}]

NoDup(seq) == Cardinality(ToSet(seq)) = Len(seq)
ObservationsAgree(c) ==
  LET a == Abs(c) IN
  /\ CNArgs(c) = Cardinality(DOMAIN a.live)
  /\ CNAttacks(c) = Cardinality(a.att)
  /\ NoDup(CIterAttacks(c)) /\ ToSet(CIterAttacks(c)) = a.att
  /\ \A i \in 0..Len(c.labels) : CHasId(c, i) = (i \in S!LiveIds(a))
  /\ \A i \in S!LiveIds(a) :
        /\ NoDup(CIterFrom(c, i)) /\ ToSet(CIterFrom(c, i)) = {p \in a.att : p[1] = i}
        /\ NoDup(CIterTo(c, i))   /\ ToSet(CIterTo(c, i))   = {p \in a.att : p[2] = i}

VARIABLE c
Init == c = CInit
Next == \E o \in S!Ops : c' = CStep(c, o).st
Spec == Init /\ [][Next]_c

(* every concrete step is the abstract step, with the same reported result *)
Refines == \A o \in S!Ops : LET r == CStep(c, o)  q == S!Step(Abs(c), o) IN Abs(r.st) = q.st /\ r.res = q.res
Observed == ObservationsAgree(c)
AbsWellFormed == S!WellFormed(Abs(c))
=============================================================================
