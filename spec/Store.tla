------------------------------- MODULE Store -------------------------------
(***************************************************************************)
(* S1 (abstract): the argumentation-framework store as a plain set model.  *)
(* This is the model property C12 talks about; it is also the *logical*    *)
(* framework carried by the trace specifications of the dynamic solvers    *)
(* (C08/C09) and of the round-trip checks (C14).                           *)
(*                                                                         *)
(* State: a record [live, nextId, att]                                     *)
(*   live   : function from the live labels to their ids                   *)
(*   nextId : number of ids issued so far (ids = insertion rank, 0-based)  *)
(*   att    : set of pairs <<attacker id, attacked id>>                    *)
(* Operations are records [op, a, b]; Step is a pure function returning    *)
(* the successor state and the result the update call must report.         *)
(***************************************************************************)
EXTENDS Naturals, FiniteSets, Sequences, TLC
CONSTANT Labels

InitS == [live |-> <<>>, nextId |-> 0, att |-> {}]

OpNewArg(l)    == [op |-> "newarg", a |-> l, b |-> l]
OpRmArg(l)     == [op |-> "rmarg",  a |-> l, b |-> l]
OpNewAtt(f, t) == [op |-> "newatt", a |-> f, b |-> t]
OpRmAtt(f, t)  == [op |-> "rmatt",  a |-> f, b |-> t]
Ops == {OpNewArg(l) : l \in Labels} \cup {OpRmArg(l) : l \in Labels}
         \cup {OpNewAtt(f, t) : f \in Labels, t \in Labels} \cup {OpRmAtt(f, t) : f \in Labels, t \in Labels}

Known(s, l) == l \in DOMAIN s.live

Step(s, o) ==
  CASE o.op = "newarg" ->
         IF Known(s, o.a) THEN [st |-> s, res |-> "ok"]                       \* existing argument: nothing changes
         ELSE [st |-> [s EXCEPT !.live = s.live @@ (o.a :> s.nextId), !.nextId = s.nextId + 1], res |-> "ok"]
    [] o.op = "rmarg" ->
         IF ~Known(s, o.a) THEN [st |-> s, res |-> "err"]
         ELSE LET i == s.live[o.a] IN
              [st |-> [s EXCEPT !.live = [l \in DOMAIN s.live \ {o.a} |-> s.live[l]],
                                !.att = {p \in s.att : p[1] # i /\ p[2] # i}],   \* exactly the incident attacks
               res |-> "ok"]
    [] o.op = "newatt" ->
         IF ~Known(s, o.a) \/ ~Known(s, o.b) THEN [st |-> s, res |-> "err"]
         ELSE [st |-> [s EXCEPT !.att = s.att \cup {<<s.live[o.a], s.live[o.b]>>}], res |-> "ok"]
    [] o.op = "rmatt" ->
         IF ~Known(s, o.a) \/ ~Known(s, o.b) THEN [st |-> s, res |-> "err"]
         ELSE LET p == <<s.live[o.a], s.live[o.b]>> IN
              IF p \notin s.att THEN [st |-> s, res |-> "err"]
              ELSE [st |-> [s EXCEPT !.att = s.att \ {p}], res |-> "ok"]

RECURSIVE Run(_, _)
Run(s, ops) == IF ops = <<>> THEN s ELSE Run(Step(s, Head(ops)).st, Tail(ops))

LiveIds(s) == {s.live[l] : l \in DOMAIN s.live}

(* the framework in the vocabulary of Dung.tla, over labels *)
LabelOf(s, i) == CHOOSE l \in DOMAIN s.live : s.live[l] = i
AsAF(s) == [args |-> DOMAIN s.live, att |-> {<<LabelOf(s, p[1]), LabelOf(s, p[2])>> : p \in s.att}]

(* ---------------- the state machine and its invariants ---------------- *)
VARIABLE s
Init == s = InitS
Next == \E o \in Ops : s' = Step(s, o).st
Spec == Init /\ [][Next]_s

WellFormed(x) ==
  /\ \A l1, l2 \in DOMAIN x.live : x.live[l1] = x.live[l2] => l1 = l2       \* ids unique
  /\ \A i \in LiveIds(x) : i < x.nextId                                       \* ids were issued
  /\ \A p \in x.att : p[1] \in LiveIds(x) /\ p[2] \in LiveIds(x)              \* no dangling attack
TypeOK == WellFormed(s)

(* ids are stable for the life of an argument and never reused; nextId never decreases *)
IdsStable == [][ /\ s'.nextId >= s.nextId
                 /\ \A l \in DOMAIN s.live \cap DOMAIN s'.live : s'.live[l] = s.live[l]
                 /\ \A l \in DOMAIN s'.live \ DOMAIN s.live : s'.live[l] = s.nextId ]_s
(* an erroneous update changes nothing; a redundant insertion changes nothing *)
ErrNoChange == \A o \in Ops : Step(s, o).res = "err" => Step(s, o).st = s
Idempotent  == \A o \in Ops : o.op \in {"newarg", "newatt"} => Step(Step(s, o).st, o).st = Step(s, o).st
=============================================================================
