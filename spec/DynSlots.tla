------------------------------ MODULE DynSlots ------------------------------
(***************************************************************************)
(* S3, attack-assumption variant (dynamics/assumptions_on_attacks): the    *)
(* encoding is a generic framework over nSlots argument slots whose        *)
(* attacks are switched on and off by assumptions; arguments created after *)
(* an encoding take the next free slot; a full re-encoding (fresh solver)  *)
(* happens when the slots run out.  Slots of removed arguments are fixed   *)
(* true and never reused before the next re-encoding.                      *)
(*   nSlots   = floor(number of arguments * factor) at encoding time       *)
(*   nextSlot = first slot not yet given out (n_args + 1 after encoding)   *)
(* The code triggers the re-encoding when nextSlot >= nSlots, i.e. one     *)
(* slot early (the last slot is never handed out).                         *)
(***************************************************************************)
EXTENDS Naturals, FiniteSets, TLC
CONSTANTS Labels, FNum, FDen, MaxOps      \* reservation factor FNum / FDen >= 1
VARIABLES live, slot, nSlots, nextSlot, needEncode, dead, ops, reencodings
vars == <<live, slot, nSlots, nextSlot, needEncode, dead, ops, reencodings>>

Init == live = {} /\ slot = <<>> /\ nSlots = 0 /\ nextSlot = 0 /\ needEncode = TRUE /\ dead = {} /\ ops = 0 /\ reencodings = 0

NewArgument(l) ==
  /\ l \notin live /\ ops < MaxOps /\ ops' = ops + 1
  /\ live' = live \cup {l}
  /\ LET need == needEncode \/ nextSlot >= nSlots IN
     IF need THEN needEncode' = TRUE /\ UNCHANGED <<slot, nextSlot>>
     ELSE /\ slot' = slot @@ (l :> nextSlot) /\ nextSlot' = nextSlot + 1 /\ UNCHANGED needEncode
  /\ UNCHANGED <<nSlots, dead, reencodings>>

RemoveArgument(l) ==
  /\ l \in live /\ ops < MaxOps /\ ops' = ops + 1
  /\ live' = live \ {l}
  /\ IF l \in DOMAIN slot THEN slot' = [x \in DOMAIN slot \ {l} |-> slot[x]] /\ dead' = dead \cup {slot[l]}
     ELSE UNCHANGED <<slot, dead>>
  /\ UNCHANGED <<nSlots, nextSlot, needEncode, reencodings>>

(* update_encoding, at the next query *)
RECURSIVE Assign(_, _)
Assign(S, k) == IF S = {} THEN <<>> ELSE LET l == CHOOSE x \in S : \A y \in S : x <= y IN (l :> k) @@ Assign(S \ {l}, k + 1)
Query ==
  /\ IF needEncode
     THEN /\ nSlots' = (Cardinality(live) * FNum) \div FDen
          /\ slot' = Assign(live, 1) /\ nextSlot' = Cardinality(live) + 1
          /\ needEncode' = FALSE /\ dead' = {} /\ reencodings' = reencodings + 1
     ELSE UNCHANGED <<nSlots, slot, nextSlot, needEncode, dead, reencodings>>
  /\ UNCHANGED <<live, ops>>

Next == (\E l \in Labels : NewArgument(l) \/ RemoveArgument(l)) \/ Query
Spec == Init /\ [][Next]_vars

(* whenever a query can be answered from the current encoding, every live argument owns a distinct, valid, live slot *)
SlotsConsistent == ~needEncode =>
   /\ DOMAIN slot = live
   /\ \A a \in live : slot[a] \in 1..nSlots /\ slot[a] \notin dead
   /\ \A a \in live : \A b \in live : slot[a] = slot[b] => a = b
   /\ nextSlot <= nSlots + 1
   /\ \A a \in live : slot[a] < nextSlot
(* the table indexed by slots is never written out of bounds *)
NeverBeyondReserved == \A a \in DOMAIN slot : slot[a] <= nSlots
(* the factor being >= 1, the encoding always has room for the arguments it was built for *)
EnoughSlots == ~needEncode => nSlots >= Cardinality({a \in live : slot[a] <= Cardinality(DOMAIN slot)})
=============================================================================
