CONSTANTS N = 3
  CompletionRule = "grounded_everywhere"
SPECIFICATION Spec
CHECK_DEADLOCK FALSE
INVARIANT StatusIsGlobal
INVARIANT CertificateIsGlobal
INVARIANT CertificateWhenPromised
