CONSTANTS NVars = 3
  MaxClauses = 2
  Clauses <- ClauseUniverse
SPECIFICATION Spec2
VIEW View
CHECK_DEADLOCK FALSE
CONSTRAINT Bound
INVARIANT ModelHonoursAll
INVARIANT UnsatOnlyIfNone
INVARIANT Export
PROPERTY AssumptionsNotRetained
