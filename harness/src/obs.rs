//! Observation of the code under test through its own public extension points:
//! `ObsSat` implements `SatSolver` (logging, counting, fault injection, scripted model choice),
//! `TracingEncoder` implements `ConstraintsEncoder<usize>` and records the component it is given.
use crustabri::aa::{AAFramework, Argument};
use crustabri::encodings::ConstraintsEncoder;
use crustabri::sat::{
    Assignment, CadicalSolver, Literal, SatSolver, SatSolverFactoryFn, SolvingListener,
    SolvingResult,
};
use std::cell::RefCell;
use std::rc::Rc;

#[derive(Clone, Debug)]
pub enum Ent {
    New(usize),
    Clause(usize, Vec<isize>),
    Reserve(usize, usize),
    Solve {
        inst: usize,
        assumps: Vec<isize>,
        /// 1 sat, 0 unsat, -1 unknown
        res: i8,
        /// per variable (index 0 = var 1): 1 true, 0 false, -1 undefined
        model: Vec<i8>,
        nvars: usize,
    },
    Encode {
        inst: usize,
        range: bool,
        labels: Vec<usize>,
        ids: Vec<usize>,
        att: Vec<(usize, usize)>,
        arglit: Vec<isize>,
        first_range: usize,
    },
}

pub struct CapExceeded;

pub struct Ctl {
    pub log: Vec<Ent>,
    pub n_inst: usize,
    pub scripted: bool,
    pub script: Vec<usize>,
    /// (choice taken, number of alternatives) at each satisfiable scripted call
    pub used: Vec<(usize, usize)>,
    pub n_solve: usize,
    pub fault_at: Option<usize>,
    pub faulted: bool,
    pub cap: usize,
    pub capped: bool,
    pub model_cap: usize,
    /// set when a model enumeration was cut (exploration then not exhaustive)
    pub cut: bool,
    pub keep_clauses: bool,
    /// when set, scripted choices beyond the script are drawn from this seeded generator
    pub rand_state: Option<u64>,
    /// "cadical" or "ext:<program>|opt|opt..." : the real SatSolver type behind the wrapper
    pub backend: String,
}

pub type Shared = Rc<RefCell<Ctl>>;

impl Ctl {
    pub fn new(scripted: bool, script: Vec<usize>) -> Shared {
        Rc::new(RefCell::new(Ctl {
            log: vec![],
            n_inst: 0,
            scripted,
            script,
            used: vec![],
            n_solve: 0,
            fault_at: None,
            faulted: false,
            cap: 100_000,
            capped: false,
            model_cap: 96,
            cut: false,
            keep_clauses: true,
            rand_state: None,
            backend: "cadical".to_string(),
        }))
    }
}

pub struct ObsSat {
    ctl: Shared,
    inst: usize,
    inner: Box<dyn SatSolver>,
    clauses: Vec<Vec<isize>>,
}

pub fn factory(ctl: &Shared) -> Box<SatSolverFactoryFn> {
    let ctl = Rc::clone(ctl);
    Box::new(move || {
        let (inst, backend) = {
            let mut c = ctl.borrow_mut();
            c.n_inst += 1;
            let i = c.n_inst;
            c.log.push(Ent::New(i));
            (i, c.backend.clone())
        };
        Box::new(ObsSat {
            ctl: Rc::clone(&ctl),
            inst,
            inner: crate::sat::mk_backend(&backend),
            clauses: vec![],
        })
    })
}

fn model_of(a: &Assignment) -> Vec<i8> {
    a.iter()
        .map(|(_, v)| match v {
            Some(true) => 1,
            Some(false) => 0,
            None => -1,
        })
        .collect()
}

/// All models of `clauses` ∧ `assumps` over the variables occurring in them, canonical order.
pub fn all_models(clauses: &[Vec<isize>], assumps: &[isize], cap: usize, min_vars: usize) -> (Vec<Vec<bool>>, bool) {
    let mut s = CadicalSolver::default();
    let mut maxv = min_vars;
    for c in clauses {
        for l in c {
            maxv = maxv.max(l.unsigned_abs());
        }
        s.add_clause(c.iter().map(|l| Literal::from(*l)).collect());
    }
    for a in assumps {
        maxv = maxv.max(a.unsigned_abs());
        s.add_clause(vec![Literal::from(*a)]);
    }
    s.reserve(maxv);
    let mut res: Vec<Vec<bool>> = vec![];
    let mut cut = false;
    loop {
        match s.solve() {
            SolvingResult::Satisfiable(a) => {
                let m: Vec<bool> = (1..=maxv)
                    .map(|v| a.value_of(v) == Some(true))
                    .collect();
                if maxv == 0 {
                    res.push(m);
                    break;
                }
                let block: Vec<Literal> = m
                    .iter()
                    .enumerate()
                    .map(|(i, b)| {
                        let v = (i + 1) as isize;
                        Literal::from(if *b { -v } else { v })
                    })
                    .collect();
                res.push(m);
                if res.len() > cap {
                    cut = true;
                    break;
                }
                s.add_clause(block);
            }
            _ => break,
        }
    }
    res.sort();
    (res, cut)
}

impl SatSolver for ObsSat {
    fn add_clause(&mut self, cl: Vec<Literal>) {
        let v: Vec<isize> = cl.iter().map(|l| isize::from(*l)).collect();
        {
            let mut c = self.ctl.borrow_mut();
            if c.keep_clauses {
                c.log.push(Ent::Clause(self.inst, v.clone()));
            }
        }
        self.clauses.push(v);
        self.inner.add_clause(cl);
    }

    fn solve(&mut self) -> SolvingResult {
        self.solve_under_assumptions(&[])
    }

    fn solve_under_assumptions(&mut self, assumptions: &[Literal]) -> SolvingResult {
        let assumps: Vec<isize> = assumptions.iter().map(|l| isize::from(*l)).collect();
        let (scripted, fault, over) = {
            let mut c = self.ctl.borrow_mut();
            c.n_solve += 1;
            let over = c.n_solve > c.cap;
            if over {
                c.capped = true;
            }
            (c.scripted, c.fault_at == Some(c.n_solve), over)
        };
        if over {
            std::panic::panic_any(CapExceeded);
        }
        if fault {
            let mut c = self.ctl.borrow_mut();
            c.faulted = true;
            c.log.push(Ent::Solve {
                inst: self.inst,
                assumps,
                res: -1,
                model: vec![],
                nvars: self.inner.n_vars(),
            });
            return SolvingResult::Unknown;
        }
        let result = if scripted {
            let cap = self.ctl.borrow().model_cap;
            let (models, cut) = all_models(&self.clauses, &assumps, cap, self.inner.n_vars());
            if models.is_empty() {
                self.inner.solve_under_assumptions(assumptions)
            } else {
                let idx = {
                    let mut c = self.ctl.borrow_mut();
                    if cut {
                        c.cut = true;
                    }
                    let pos = c.used.len();
                    let mut idx = if pos < c.script.len() {
                        c.script[pos]
                    } else if let Some(st) = c.rand_state {
                        // xorshift64*
                        let mut x = st;
                        x ^= x >> 12;
                        x ^= x << 25;
                        x ^= x >> 27;
                        c.rand_state = Some(x);
                        (x.wrapping_mul(0x2545F4914F6CDD1D) >> 33) as usize % models.len()
                    } else {
                        0
                    };
                    if idx >= models.len() {
                        idx = models.len() - 1;
                    }
                    c.used.push((idx, models.len()));
                    idx
                };
                let mut full: Vec<Literal> = assumptions.to_vec();
                for (i, b) in models[idx].iter().enumerate() {
                    let v = (i + 1) as isize;
                    full.push(Literal::from(if *b { v } else { -v }));
                }
                self.inner.solve_under_assumptions(&full)
            }
        } else {
            self.inner.solve_under_assumptions(assumptions)
        };
        let (res, model) = match &result {
            SolvingResult::Satisfiable(a) => (1, model_of(a)),
            SolvingResult::Unsatisfiable => (0, vec![]),
            SolvingResult::Unknown => (-1, vec![]),
        };
        self.ctl.borrow_mut().log.push(Ent::Solve {
            inst: self.inst,
            assumps,
            res,
            model,
            nvars: self.inner.n_vars(),
        });
        result
    }

    fn n_vars(&self) -> usize {
        self.inner.n_vars()
    }

    fn add_listener(&mut self, listener: Box<dyn SolvingListener>) {
        self.inner.add_listener(listener)
    }

    fn reserve(&mut self, new_max_id: usize) {
        self.ctl
            .borrow_mut()
            .log
            .push(Ent::Reserve(self.inst, new_max_id));
        self.inner.reserve(new_max_id)
    }
}

pub struct TracingEncoder {
    ctl: Shared,
    inner: Box<dyn ConstraintsEncoder<usize>>,
}

impl TracingEncoder {
    pub fn new(ctl: &Shared, inner: Box<dyn ConstraintsEncoder<usize>>) -> Self {
        TracingEncoder {
            ctl: Rc::clone(ctl),
            inner,
        }
    }

    fn record(&self, af: &AAFramework<usize>, range: bool) {
        let labels: Vec<usize> = af.argument_set().iter().map(|a| *a.label()).collect();
        let ids: Vec<usize> = af.argument_set().iter().map(|a| a.id()).collect();
        let att: Vec<(usize, usize)> = af
            .iter_attacks()
            .map(|a| (*a.attacker().label(), *a.attacked().label()))
            .collect();
        let arglit: Vec<isize> = af
            .argument_set()
            .iter()
            .map(|a| isize::from(self.inner.arg_to_lit(a)))
            .collect();
        let first_range = self.inner.first_range_var(af.n_arguments());
        let mut c = self.ctl.borrow_mut();
        // the instance being encoded is the one that received the last operation (or was created last)
        let inst = c
            .log
            .iter()
            .rev()
            .find_map(|e| match e {
                Ent::New(i) | Ent::Clause(i, _) | Ent::Reserve(i, _) => Some(*i),
                _ => None,
            })
            .unwrap_or(0);
        c.log.push(Ent::Encode {
            inst,
            range,
            labels,
            ids,
            att,
            arglit,
            first_range,
        });
    }
}

impl ConstraintsEncoder<usize> for TracingEncoder {
    fn encode_constraints(&self, af: &AAFramework<usize>, solver: &mut dyn SatSolver) {
        self.inner.encode_constraints(af, solver);
        self.record(af, false);
    }

    fn encode_constraints_and_range(&self, af: &AAFramework<usize>, solver: &mut dyn SatSolver) {
        self.inner.encode_constraints_and_range(af, solver);
        self.record(af, true);
    }

    fn assignment_to_extension<'a>(
        &self,
        assignment: &Assignment,
        af: &'a AAFramework<usize>,
    ) -> Vec<&'a Argument<usize>> {
        self.inner.assignment_to_extension(assignment, af)
    }

    fn arg_to_lit(&self, arg: &Argument<usize>) -> Literal {
        self.inner.arg_to_lit(arg)
    }

    fn first_range_var(&self, n_args: usize) -> usize {
        self.inner.first_range_var(n_args)
    }
}
