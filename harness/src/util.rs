//! small helpers: argument parsing, panic capture, parallel map, output
use std::any::Any;
use std::collections::HashMap;
use std::io::Write;
use std::sync::Mutex;

pub struct Args {
    m: HashMap<String, String>,
}

impl Args {
    pub fn parse(v: &[String]) -> Self {
        let mut m = HashMap::new();
        let mut i = 0;
        while i < v.len() {
            if let Some(k) = v[i].strip_prefix("--") {
                if i + 1 < v.len() {
                    m.insert(k.to_string(), v[i + 1].clone());
                    i += 2;
                    continue;
                }
            }
            panic!("bad command line near {:?}", v[i]);
        }
        Args { m }
    }
    pub fn get(&self, k: &str, d: &str) -> String {
        self.m.get(k).cloned().unwrap_or_else(|| d.to_string())
    }
    pub fn list(&self, k: &str, d: &str) -> Vec<String> {
        self.get(k, d).split(',').filter(|s| !s.is_empty()).map(|s| s.to_string()).collect()
    }
    pub fn num(&self, k: &str, d: usize) -> usize {
        self.m.get(k).map(|s| s.parse().unwrap()).unwrap_or(d)
    }
}

thread_local! {
    static LAST_PANIC: std::cell::RefCell<String> = std::cell::RefCell::new(String::new());
}

/// panics of the code under test are data: no output, message kept for the event
pub fn install_quiet_panic_hook() {
    static ONCE: std::sync::Once = std::sync::Once::new();
    ONCE.call_once(|| {
        std::panic::set_hook(Box::new(|info| {
            let loc = info.location().map(|l| format!("{}:{}", l.file(), l.line())).unwrap_or_default();
            let msg = if let Some(s) = info.payload().downcast_ref::<&str>() {
                s.to_string()
            } else if let Some(s) = info.payload().downcast_ref::<String>() {
                s.clone()
            } else {
                "panic".to_string()
            };
            LAST_PANIC.with(|p| *p.borrow_mut() = format!("{} @ {}", msg, loc));
        }));
    });
}

pub fn panic_message(_e: &Box<dyn Any + Send>) -> String {
    let s = LAST_PANIC.with(|p| p.borrow().clone());
    let s: String = s.chars().filter(|c| *c != '"' && *c != '\\' && *c != '\n').take(200).collect();
    if s.is_empty() { "panic".to_string() } else { s }
}

/// order-preserving parallel map over jobs
pub fn par_map<J, R, F>(jobs: Vec<J>, threads: usize, f: F) -> Vec<R>
where
    J: Sync,
    R: Send,
    F: Fn(&J) -> R + Sync,
{
    let n = jobs.len();
    let next = Mutex::new(0usize);
    let results: Mutex<Vec<Option<R>>> = Mutex::new((0..n).map(|_| None).collect());
    std::thread::scope(|s| {
        for _ in 0..threads.max(1).min(n.max(1)) {
            s.spawn(|| loop {
                let i = {
                    let mut g = next.lock().unwrap();
                    let i = *g;
                    *g += 1;
                    i
                };
                if i >= n {
                    break;
                }
                let r = f(&jobs[i]);
                results.lock().unwrap()[i] = Some(r);
            });
        }
    });
    results.into_inner().unwrap().into_iter().map(|o| o.unwrap()).collect()
}

pub fn write_lines<I: Iterator<Item = String>>(path: &str, lines: I) {
    let f = std::fs::File::create(path).expect("cannot create output");
    let mut w = std::io::BufWriter::new(f);
    for l in lines {
        w.write_all(l.as_bytes()).unwrap();
        w.write_all(b"\n").unwrap();
    }
    w.flush().unwrap();
}

/// order-preserving parallel map whose results are written chunk by chunk (bounded memory for large runs)
pub fn par_map_write<J, F>(jobs: Vec<J>, threads: usize, path: &str, chunk: usize, f: F)
where
    J: Sync + Clone,
    F: Fn(&J) -> Vec<String> + Sync,
{
    let file = std::fs::File::create(path).expect("cannot create output");
    let mut w = std::io::BufWriter::new(file);
    for c in jobs.chunks(chunk.max(1)) {
        let res = par_map(c.to_vec(), threads, &f);
        for lines in res {
            for l in lines {
                w.write_all(l.as_bytes()).unwrap();
                w.write_all(b"\n").unwrap();
            }
        }
    }
    w.flush().unwrap();
}
