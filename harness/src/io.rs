//! C13 / C14: instance readers and writers.
use crate::util::{self, Args};
use crustabri::aa::{AAFramework, Argument, ArgumentSet};
use crustabri::io::{AspartixReader, AspartixWriter, Iccma23Reader, Iccma23Writer, InstanceReader, ResponseWriter};
use rand::rngs::StdRng;
use rand::{Rng, SeedableRng};
use serde_json::{json, Value};
use std::panic::{catch_unwind, AssertUnwindSafe};

// reader objects that live as long as their thread and serve many files (the API takes &self: state kept between two reads would be a
// defect); every other read uses a fresh object, so both usages are exercised
thread_local! {
    static SHARED_ICCMA: Iccma23Reader = Iccma23Reader::default();
    static SHARED_APX: AspartixReader = AspartixReader::default();
    static READS: std::cell::Cell<usize> = const { std::cell::Cell::new(0) };
}
fn use_shared_sink() -> bool {
    READS.with(|c| c.get() % 3 == 0)
}
fn use_shared() -> bool {
    READS.with(|c| {
        c.set(c.get() + 1);
        c.get() % 2 == 1
    })
}
pub fn read_iccma(bytes: &[u8]) -> anyhow::Result<AAFramework<usize>> {
    let mut b = bytes;
    if use_shared() {
        SHARED_ICCMA.with(|r| r.read(&mut b))
    } else {
        Iccma23Reader::default().read(&mut b)
    }
}
pub fn read_apx(bytes: &[u8]) -> anyhow::Result<AAFramework<String>> {
    let mut b = bytes;
    if use_shared() {
        SHARED_APX.with(|r| r.read(&mut b))
    } else {
        AspartixReader::default().read(&mut b)
    }
}

fn iccma_text(kind: &str) -> &'static str {
    match kind {
        "cmt" => "# a comment 1 2",
        "empty" => "",
        "ws" => "  ",
        "hdr" => "p af 3",
        "hdr0" => "p af 0",
        "hdrKind" => "p cnf 3",
        "hdrP" => "q af 3",
        "hdrNum" => "p af x",
        "hdrNeg" => "p af -1",
        "hdrShort" => "p af",
        "a12" => "1 2",
        "a23" => "2 3",
        "a33" => "3 3",
        "aOOR" => "1 4",
        "aZero" => "0 1",
        "aOne" => "1",
        "aThree" => "1 2 3",
        "aNaN" => "a b",
        // \u{1} stands for a byte that is not valid UTF-8 (0xE9, Latin-1 e-acute): replaced when the text is turned into bytes
        "cmtBin" => "# g\u{1}n\u{1}r\u{1} par un outil",
        "aBin" => "1 \u{1}2",
        "aWrap64" => "18446744073709551618 3",
        "aWrap32" => "1 4294967298",
        _ => panic!("unknown iccma line kind {}", kind),
    }
}

fn apx_text(kind: &str) -> &'static str {
    match kind {
        "argA" => "arg(a).",
        "argB" => "arg(b).",
        "argC" => "arg(c).",
        "argSp" => "arg( a ).",
        "argBad" => "arg(1a).",
        "attAB" => "att(a,b).",
        "attBC" => "att(b,c).",
        "attCC" => "att(c,c).",
        "attSp" => "att( a , b ).",
        "attUnd" => "att(a,z).",
        "attOne" => "att(a).",
        "attThree" => "att(a,b,c).",
        "attBad" => "att(a,1b).",
        "junk" => "hello.",
        "nodot" => "arg(a)",
        "empty" => "",
        "ws" => "   ",
        _ => panic!("unknown apx line kind {}", kind),
    }
}

fn concretise(fmt: &str, kinds: &[String], variant: usize) -> String {
    let mut t = String::new();
    let eol = if variant == 1 { "\r\n" } else { "\n" };
    for (i, k) in kinds.iter().enumerate() {
        let line = if fmt == "iccma" { iccma_text(k) } else { apx_text(k) };
        // surrounding / repeated spaces where the grammar allows them
        let spaced = variant == 3 && !(fmt == "iccma" && (k == "cmt" || k == "cmtBin" || k == "empty"));
        if variant == 4 {
            // long physical lines (around and above 64 KiB): same content, so same verdict
            let sizes = [65535usize, 65536, 65537, 70000, 131077, 8191, 8192, 8193];
            let sz = sizes[(i + kinds.len()) % sizes.len()];
            if fmt == "iccma" && k == "cmtBin" {
                t.push_str(line);
            } else if fmt == "iccma" && k == "cmt" {
                let mut c = String::from("# ");
                while c.len() + 4 < sz {
                    c.push_str("filler ");
                }
                c.truncate(sz - 4);
                c.push_str(" 3 1");
                t.push_str(&c);
            } else if fmt == "iccma" && (k == "empty" || k == "ws") {
                t.push_str(line);
            } else if fmt == "iccma" {
                t.push_str(&line.replacen(' ', &" ".repeat(sz), 1));
            } else if !line.is_empty() && k != "ws" {
                t.push_str(&" ".repeat(sz));
                t.push_str(line);
                t.push_str("   ");
            } else {
                t.push_str(line);
            }
        } else if spaced {
            if fmt == "iccma" {
                t.push_str("  ");
                t.push_str(&line.replace(' ', " \t "));
                t.push(' ');
            } else if !line.is_empty() {
                t.push_str("  ");
                t.push_str(line);
                t.push_str("  ");
            } else {
                t.push_str(line);
            }
        } else {
            t.push_str(line);
        }
        if i + 1 < kinds.len() || variant != 2 {
            t.push_str(eol);
        }
    }
    t
}

fn apx_label_num(l: &str) -> usize {
    match l {
        "a" => 1,
        "b" => 2,
        "c" => 3,
        _ => {
            if let Some(n) = l.strip_prefix('l') {
                n.parse().unwrap_or(99)
            } else {
                99
            }
        }
    }
}

fn af_json<T: crustabri::utils::LabelType>(af: &AAFramework<T>, num: &dyn Fn(&T) -> usize) -> (Vec<usize>, Vec<Vec<usize>>, usize, bool) {
    let args: Vec<usize> = af.argument_set().iter().map(|a| num(a.label())).collect();
    let ids_ok = af.argument_set().iter().enumerate().all(|(i, a)| a.id() == i);
    let mut att: Vec<Vec<usize>> = af.iter_attacks().map(|a| vec![num(a.attacker().label()), num(a.attacked().label())]).collect();
    let raw = att.len();
    att.sort();
    att.dedup();
    (args, att, raw, ids_ok)
}

/// the bytes of a concretised file: the placeholder \u{1} becomes the byte 0xE9 (not valid UTF-8 on its own)
pub fn file_bytes(text: &str) -> Vec<u8> {
    text.bytes().map(|b| if b == 1 { 0xE9 } else { b }).collect()
}

fn read_event(fmt: &str, kinds: &[String], variant: usize) -> String {
    let text = file_bytes(&concretise(fmt, kinds, variant));
    let r = catch_unwind(AssertUnwindSafe(|| {
        if fmt == "iccma" {
            read_iccma(&text).ok().map(|af| af_json(&af, &|l: &usize| *l))
        } else {
            read_apx(&text).ok().map(|af| af_json(&af, &|l: &String| apx_label_num(l)))
        }
    }));
    match r {
        Ok(Some((args, att, raw, ids_ok))) => json!({"ev": "file", "fmt": fmt, "lines": kinds, "variant": variant, "res": "ok", "args": args, "att": att, "natt_raw": raw, "ids_ok": ids_ok}).to_string(),
        Ok(None) => json!({"ev": "file", "fmt": fmt, "lines": kinds, "variant": variant, "res": "err", "args": [], "att": [], "natt_raw": 0, "ids_ok": true}).to_string(),
        Err(_) => json!({"ev": "file", "fmt": fmt, "lines": kinds, "variant": variant, "res": "panic", "args": [], "att": [], "natt_raw": 0, "ids_ok": true}).to_string(),
    }
}

/// an ICCMA file declaring more than a million arguments asks for gigabytes: a resource limit of the test bench, not a behaviour the
/// property talks about (the allocation failure aborts the process, it cannot be observed as a panic) -- such fuzz cases are not run
fn declares_huge_framework(bytes: &[u8]) -> bool {
    String::from_utf8_lossy(bytes).lines().any(|l| {
        let w: Vec<&str> = l.split_whitespace().collect();
        w.len() >= 3 && w[0] == "p" && w[1] == "af" && w[2].chars().all(|c| c.is_ascii_digit()) && (w[2].len() > 7 || w[2].parse::<u64>().map_or(true, |n| n > 1_000_000))
    })
}

fn total_event(fmt: &str, bytes: &[u8], origin: &str) -> String {
    if fmt == "iccma" && declares_huge_framework(bytes) {
        return json!({"ev": "skip", "what": "fuzz case declaring more than 10^6 arguments not run", "fmt": fmt, "origin": origin, "len": bytes.len()}).to_string();
    }
    let r = catch_unwind(AssertUnwindSafe(|| {
        let mut b = bytes;
        if fmt == "iccma" {
            read_iccma(b).is_ok()
        } else {
            read_apx(b).is_ok()
        }
    }));
    let res = match r {
        Ok(true) => "ok",
        Ok(false) => "err",
        Err(_) => "panic",
    };
    json!({"ev": "total", "fmt": fmt, "origin": origin, "len": bytes.len(), "res": res}).to_string()
}

fn argstr_events() -> Vec<String> {
    let mut v = vec![];
    let af_i = Iccma23Reader::default().read(&mut "p af 3\n1 2\n".as_bytes()).unwrap();
    for (kind, s) in [("one", "1"), ("three", "3"), ("zero", "0"), ("four", "4"), ("neg", "-1"), ("nan", "x"), ("empty", ""), ("big", "99999999999999999999"), ("wrap64", "18446744073709551617"), ("wrap32", "4294967297"), ("wrap16", "65537")] {
        let r = catch_unwind(AssertUnwindSafe(|| Iccma23Reader::default().read_arg_from_str(&af_i, s).ok().map(|a| (a.id(), *a.label()))));
        let (res, id, label) = match r {
            Ok(Some((id, l))) => ("ok", id, l),
            Ok(None) => ("err", 0, 0),
            Err(_) => ("panic", 0, 0),
        };
        v.push(json!({"ev": "argstr", "fmt": "iccma", "kind": kind, "res": res, "id": id, "label": label}).to_string());
    }
    let af_a = AspartixReader::default().read(&mut "arg(a).\narg(b).\narg(c).\natt(a,b).\n".as_bytes()).unwrap();
    for (kind, s) in [("one", "a"), ("three", "c"), ("nan", "z"), ("empty", ""), ("zero", "0")] {
        let r = catch_unwind(AssertUnwindSafe(|| AspartixReader::default().read_arg_from_str(&af_a, s).ok().map(|a| (a.id(), apx_label_num(a.label())))));
        let (res, id, label) = match r {
            Ok(Some((id, l))) => ("ok", id, l),
            Ok(None) => ("err", 0, 0),
            Err(_) => ("panic", 0, 0),
        };
        v.push(json!({"ev": "argstr", "fmt": "apx", "kind": kind, "res": res, "id": id, "label": label}).to_string());
    }
    v
}

/// response writers (C14): the bytes written for an extension / a status, tokenised
/// a sink that accepts at most `chunk` bytes per `write` call (0 = everything): the `Write` contract allows short writes, a writer of
/// this crate must produce the same bytes whatever the sink accepts at a time
pub struct Sink {
    pub buf: Vec<u8>,
    pub chunk: usize,
}
impl Sink {
    pub fn new(chunk: usize) -> Self {
        Sink { buf: vec![], chunk }
    }
}
impl std::io::Write for Sink {
    fn write(&mut self, b: &[u8]) -> std::io::Result<usize> {
        let k = if self.chunk == 0 { b.len() } else { b.len().min(self.chunk) };
        self.buf.extend_from_slice(&b[..k]);
        Ok(k)
    }
    fn flush(&mut self) -> std::io::Result<()> {
        Ok(())
    }
}

fn resp_events(rng: &mut StdRng, n: usize) -> Vec<String> {
    let mut v = vec![];
    for i in 0..n {
        let chunk = [0usize, 0, 1, 3, 7][i % 5];
        // mostly small extensions; every 50th one is large (several KiB of text: buffering boundaries of the writers)
        let big = i % 50 == 49;
        let usize_n = if big { rng.gen_range(600..3000) } else { 8 };
        let k = if big { rng.gen_range(usize_n / 2..usize_n) } else { rng.gen_range(0..6) };
        // every 7th case uses labels of 5-13 digits (the ICCMA labels of big instances), strictly increasing
        // (TLC integers are 32-bit: labels stay below 2^31)
        let scale: usize = if i % 7 == 3 { if big { [9_973usize, 100_003][i / 7 % 2] } else { [9_973usize, 100_003, 12_345_679, 200_000_033][i / 7 % 4] } } else { 1 };
        let universe: Vec<usize> = (1..=usize_n).map(|x| x * scale + if scale > 1 { x % 97 } else { 0 }).collect();
        let mut labels: Vec<usize> = vec![];
        for _ in 0..k {
            let l = universe[rng.gen_range(0..universe.len())];
            if !labels.contains(&l) {
                labels.push(l);
            }
        }
        // ICCMA writer over usize labels
        let aset = ArgumentSet::new_with_labels(&universe);
        let ext: Vec<&Argument<usize>> = labels.iter().map(|l| aset.get_argument(l).unwrap()).collect();
        let mut sink = Sink::new(chunk);
        Iccma23Writer.write_single_extension(&mut sink, &ext).unwrap();
        let text = String::from_utf8(sink.buf).unwrap();
        let toks: Vec<String> = text.split_whitespace().map(|s| s.to_string()).collect();
        let nums: Vec<usize> = toks.iter().skip(1).map(|t| t.parse().unwrap_or(0)).collect();
        v.push(json!({"ev": "resp", "writer": "iccma", "labels": labels, "head": toks.first().cloned().unwrap_or_default(), "items": nums,
            "nlines": text.matches('\n').count(), "endnl": text.ends_with('\n'), "exact": text == format!("w{}\n", labels.iter().map(|l| format!(" {}", l)).collect::<String>())}).to_string());
        // Aspartix writer over string labels
        let slabels: Vec<String> = universe.iter().map(|l| format!("l{}", l)).collect();
        let sset = ArgumentSet::new_with_labels(&slabels);
        let sext: Vec<&Argument<String>> = labels.iter().map(|l| sset.get_argument(&format!("l{}", l)).unwrap()).collect();
        let mut sink = Sink::new(chunk);
        AspartixWriter.write_single_extension(&mut sink, &sext).unwrap();
        let text = String::from_utf8(sink.buf).unwrap();
        let inner = text.trim_end_matches('\n');
        let ok_brackets = inner.starts_with('[') && inner.ends_with(']');
        let body = if ok_brackets { &inner[1..inner.len() - 1] } else { "" };
        let items: Vec<usize> = if body.is_empty() { vec![] } else { body.split(',').map(apx_label_num).collect() };
        v.push(json!({"ev": "resp", "writer": "apx", "labels": labels, "head": if ok_brackets { "[]" } else { "?" }, "items": items,
            "nlines": text.matches('\n').count(), "endnl": text.ends_with('\n'),
            "exact": text == format!("[{}]\n", labels.iter().map(|l| format!("l{}", l)).collect::<Vec<String>>().join(","))}).to_string());
    }
    for chunk in [0usize, 1, 2, 3] {
        for st in [true, false] {
            for w in ["iccma", "apx"] {
                let mut buf = Sink::new(chunk);
                if w == "iccma" { Iccma23Writer.write_acceptance_status(&mut buf, st).unwrap() } else { AspartixWriter.write_acceptance_status(&mut buf, st).unwrap() }
                v.push(json!({"ev": "status", "writer": w, "status": st, "chunk": chunk, "text": String::from_utf8(buf.buf).unwrap().replace('\n', "$")}).to_string());
            }
        }
        for w in ["iccma", "apx"] {
            let mut buf = Sink::new(chunk);
            if w == "iccma" { Iccma23Writer.write_no_extension(&mut buf).unwrap() } else { AspartixWriter.write_no_extension(&mut buf).unwrap() }
            v.push(json!({"ev": "noext", "writer": w, "chunk": chunk, "text": String::from_utf8(buf.buf).unwrap().replace('\n', "$")}).to_string());
        }
    }
    v
}

pub fn cmd_io(a: &Args) {
    util::install_quiet_panic_hook();
    let out = a.get("out", "/dev/stdout");
    let threads = a.num("threads", 16);
    let seed = a.num("seed", 1) as u64;
    let mut lines: Vec<String> = vec![json!({"ev": "reset"}).to_string()];
    let ffile = a.get("files", "");
    if !ffile.is_empty() {
        let txt = std::fs::read_to_string(&ffile).unwrap();
        let files: Vec<(String, Vec<String>)> = txt.lines().filter(|l| !l.trim().is_empty()).map(|l| {
            let v: Value = serde_json::from_str(l).unwrap();
            (v["fmt"].as_str().unwrap().to_string(), v["lines"].as_array().unwrap().iter().map(|k| k.as_str().unwrap().to_string()).collect())
        }).collect();
        let jobs: Vec<(usize, (String, Vec<String>))> = files.into_iter().enumerate().collect();
        let res = util::par_map(jobs, threads, |(i, (fmt, kinds))| {
            util::install_quiet_panic_hook();
            let mut v = vec![read_event(fmt, kinds, 0)];
            let extra = 1 + (i + seed as usize) % 3;
            v.push(read_event(fmt, kinds, extra));
            if i % 6 == 0 || (kinds.iter().any(|k| k == "cmt" || k == "cmtBin") && i % 2 == 0) {
                v.push(read_event(fmt, kinds, 4));
            }
            v
        });
        lines.extend(res.into_iter().flatten());
    }
    if a.get("argstr", "no") == "yes" {
        lines.extend(argstr_events());
    }
    let nresp = a.num("resp", 0);
    if nresp > 0 {
        let mut rng = StdRng::seed_from_u64(seed);
        lines.extend(resp_events(&mut rng, nresp));
    }
    let nfuzz = a.num("fuzz", 0);
    if nfuzz > 0 {
        let mut rng = StdRng::seed_from_u64(seed ^ 0x5eed);
        let seeds_i = ["p af 3\n1 2\n2 3\n3 3\n", "# c\np af 5\n1 2\n\n", "p af 0\n", "p af 2\n1 1\n2 1\n1 2\n"];
        let seeds_a = ["arg(a).\narg(b).\natt(a,b).\n", "arg(x1).\narg(_y).\natt(x1,_y).\natt(_y,_y).\n", "arg( a ).\n\n"];
        let toks = ["p", "af", "cnf", "#", "1", "2", "0", "-1", "99999999999999999999999", "arg(", ")", ".", ",", "att(", "a", " ", "\t", "\r", "\n", "\u{e9}", "\u{2028}", "(", "+3", "1e3"];
        for i in 0..nfuzz {
            let fmt = if i % 2 == 0 { "iccma" } else { "apx" };
            let base = if fmt == "iccma" { seeds_i[rng.gen_range(0..seeds_i.len())] } else { seeds_a[rng.gen_range(0..seeds_a.len())] };
            let mut b: Vec<u8> = base.as_bytes().to_vec();
            match rng.gen_range(0..4) {
                0 => {
                    // byte-level corruption
                    for _ in 0..rng.gen_range(1..4) {
                        if b.is_empty() { break; }
                        let p = rng.gen_range(0..b.len());
                        match rng.gen_range(0..3) {
                            0 => b[p] = rng.gen(),
                            1 => { b.remove(p); }
                            _ => b.insert(p, rng.gen()),
                        }
                    }
                    lines.push(total_event(fmt, &b, "bytes"));
                }
                1 => {
                    // token-level corruption
                    let mut s = String::from_utf8_lossy(&b).to_string();
                    for _ in 0..rng.gen_range(1..4) {
                        let t = toks[rng.gen_range(0..toks.len())];
                        let mut p = rng.gen_range(0..=s.len());
                        while !s.is_char_boundary(p) { p -= 1; }
                        s.insert_str(p, t);
                    }
                    lines.push(total_event(fmt, s.as_bytes(), "tokens"));
                }
                2 => {
                    // raw random bytes (invalid UTF-8 included)
                    let n = rng.gen_range(0..64);
                    let raw: Vec<u8> = (0..n).map(|_| rng.gen()).collect();
                    lines.push(total_event(fmt, &raw, "raw"));
                }
                _ => {
                    // random token soup
                    let n = rng.gen_range(0..30);
                    let s: String = (0..n).map(|_| toks[rng.gen_range(0..toks.len())]).collect();
                    lines.push(total_event(fmt, s.as_bytes(), "soup"));
                }
            }
        }
    }
    // large well-formed files (hundreds to thousands of arguments, hubs with many outgoing attacks, duplicated declarations):
    // the expected framework is known by construction; the comparison is done here, TLC checks the verdict fields
    let nbig = a.num("big", 0);
    if nbig > 0 {
        let mut rng = StdRng::seed_from_u64(seed ^ 0xb16);
        for i in 0..nbig {
            let fmt = if i % 2 == 0 { "iccma" } else { "apx" };
            // one file in six declares 65 535 .. 131 073 arguments, few of them in attacks (tables allocated by blocks, lazily grown sets)
            let huge = i % 6 >= 4;
            let n = if huge { [65535usize, 65536, 65537, 70000, 131073][(i / 6) % 5] } else { rng.gen_range(40..400) * if i % 5 == 4 { 10 } else { 1 } };
            let mut atts: Vec<(usize, usize)> = vec![];
            // hubs: arguments with many outgoing / incoming attacks
            let top = if huge { n - 3 } else { n };
            for _ in 0..rng.gen_range(1..4) {
                let h = rng.gen_range(1..=top);
                for _ in 0..rng.gen_range(30..120) {
                    let x = rng.gen_range(1..=top);
                    if rng.gen_bool(0.7) { atts.push((h, x)) } else { atts.push((x, h)) }
                }
            }
            for _ in 0..(if huge { rng.gen_range(0..40) } else { rng.gen_range(n..3 * n) }) {
                // in the huge files the last declared arguments stay out of every attack
                atts.push((rng.gen_range(1..=top), rng.gen_range(1..=top)));
            }
            let mut t = String::new();
            if fmt == "iccma" {
                t.push_str(&format!("p af {}\n", n));
                for (x, y) in &atts {
                    t.push_str(&format!("{} {}\n", x, y));
                }
            } else {
                for x in 1..=n {
                    t.push_str(&format!("arg(l{}).\n", x));
                    if rng.gen_bool(0.02) {
                        t.push_str(&format!("arg(l{}).\n", rng.gen_range(1..=x)));   // a repeated declaration changes nothing
                    }
                }
                for (x, y) in &atts {
                    t.push_str(&format!("att(l{},l{}).\n", x, y));
                }
            }
            let mut want: Vec<(usize, usize)> = atts.clone();
            want.sort();
            want.dedup();
            let r = catch_unwind(AssertUnwindSafe(|| {
                let (args, got, raw, ids_ok) = if fmt == "iccma" {
                    let af = read_iccma(t.as_bytes()).ok()?;
                    af_json(&af, &|l: &usize| *l)
                } else {
                    let af = read_apx(t.as_bytes()).ok()?;
                    af_json(&af, &|l: &String| apx_label_num(l))
                };
                let got: Vec<(usize, usize)> = got.iter().map(|p| (p[0], p[1])).collect();
                Some((args == (1..=n).collect::<Vec<usize>>(), got == want, raw, ids_ok))
            }));
            let (res, args_ok, atts_ok, raw, ids_ok) = match r {
                Ok(Some((a1, a2, raw, i1))) => ("ok", a1, a2, raw, i1),
                Ok(None) => ("err", false, false, 0, false),
                Err(_) => ("panic", false, false, 0, false),
            };
            lines.push(json!({"ev": "bigfile", "fmt": fmt, "n": n, "lines": atts.len(), "distinct_attacks": want.len(), "bytes": t.len(),
                "res": res, "args_ok": args_ok, "atts_ok": atts_ok, "natt_raw": raw, "ids_ok": ids_ok}).to_string());
        }
    }
    // C14: large frameworks (hundreds to thousands of arguments, labels of 1-40 characters, built through an update history with
    // removals) written by AspartixWriter and read back; the comparison is done here, TLC checks the verdict fields
    let nbigrt = a.num("bigrt", 0);
    if nbigrt > 0 {
        let mut rng = StdRng::seed_from_u64(seed ^ 0x0b19);
        for i in 0..nbigrt {
            let n = rng.gen_range(50..600) * if i % 4 == 3 { 6 } else { 1 };
            let label = |k: usize, rng_len: usize| -> String {
                let mut l = format!("x{}", k);
                while l.len() < rng_len { l.push('_'); l.push_str(&format!("{}", k % 10)); }
                l
            };
            let lens: Vec<usize> = (0..n).map(|_| rng.gen_range(1..40)).collect();
            let labels: Vec<String> = (0..n).map(|k| label(k, lens[k])).collect();
            let mut af: AAFramework<String> = AAFramework::default();
            for l in &labels { af.new_argument(l.clone()); }
            let mut live: Vec<bool> = vec![true; n];
            let mut atts: std::collections::BTreeSet<(usize, usize)> = Default::default();
            for _ in 0..rng.gen_range(n..4 * n) {
                let x = rng.gen_range(0..n); let y = rng.gen_range(0..n);
                if live[x] && live[y] { af.new_attack(&labels[x], &labels[y]).unwrap(); atts.insert((x, y)); }
                if rng.gen_bool(0.03) {
                    let z = rng.gen_range(0..n);
                    if live[z] { af.remove_argument(&labels[z]).unwrap(); live[z] = false; atts.retain(|p| p.0 != z && p.1 != z); }
                }
                if rng.gen_bool(0.05) {
                    if let Some(p) = atts.iter().next().cloned() { af.remove_attack(&labels[p.0], &labels[p.1]).unwrap(); atts.remove(&p); }
                }
            }
            let r = catch_unwind(AssertUnwindSafe(|| {
                let mut buf: Vec<u8> = vec![];
                AspartixWriter.write_framework(&af, &mut buf).unwrap();
                let text = String::from_utf8(buf).unwrap();
                let nlines = text.matches('\n').count();
                let back = read_apx(text.as_bytes()).ok()?;
                let want_args: Vec<&String> = (0..n).filter(|k| live[*k]).map(|k| &labels[k]).collect();
                let got_args: Vec<&String> = back.argument_set().iter().map(|a| a.label()).collect();
                let mut got_atts: Vec<(String, String)> = back.iter_attacks().map(|t| (t.attacker().label().clone(), t.attacked().label().clone())).collect();
                let raw = got_atts.len();
                got_atts.sort(); got_atts.dedup();
                let mut want_atts: Vec<(String, String)> = atts.iter().map(|p| (labels[p.0].clone(), labels[p.1].clone())).collect();
                want_atts.sort();
                Some((want_args == got_args, want_atts == got_atts, raw == want_atts.len(), nlines == want_args.len() + want_atts.len(), text.len()))
            }));
            let (res, a1, a2, a3, a4, bytes) = match r { Ok(Some(t)) => ("ok", t.0, t.1, t.2, t.3, t.4), Ok(None) => ("err", false, false, false, false, 0), Err(_) => ("panic", false, false, false, false, 0) };
            lines.push(json!({"ev": "bigrt", "n": n, "live": live.iter().filter(|b| **b).count(), "natt": atts.len(), "bytes": bytes,
                "res": res, "args_ok": a1, "atts_ok": a2, "nodup": a3, "lines_ok": a4}).to_string());
        }
    }
    util::write_lines(&out, lines.into_iter());
}

/// write_framework then read: used by the store command for the C14 round trip
pub fn roundtrip(af: &AAFramework<String>) -> Value {
    let r = catch_unwind(AssertUnwindSafe(|| {
        // every third round trip goes through a sink that accepts 5 bytes per write call
        let mut sink = Sink::new(if use_shared_sink() { 5 } else { 0 });
        AspartixWriter.write_framework(af, &mut sink).unwrap();
        let text = String::from_utf8(sink.buf).unwrap();
        let nlines = text.matches('\n').count();
        match read_apx(text.as_bytes()) {
            Ok(back) => {
                let (args, att, raw, _) = af_json(&back, &|l: &String| l[1..].parse::<usize>().unwrap_or(99));
                json!({"res": "ok", "args": args, "att": att, "natt_raw": raw, "nlines": nlines})
            }
            Err(_) => json!({"res": "err", "args": [], "att": [], "natt_raw": 0, "nlines": nlines}),
        }
    }));
    r.unwrap_or(json!({"res": "panic", "args": [], "att": [], "natt_raw": 0, "nlines": 0}))
}
