//! `vh` — conformance harness for crustabri: drives the real code and records ndjson traces that the
//! TLA+ trace specifications (judged by TLC) consume.  See /verif/DESIGN.md.
mod afio;
mod obs;
mod dynamic;
mod enc;
mod equiv;
mod ext;
mod io;
mod meta;
mod sat;
mod stat;
mod store;
mod util;

fn main() {
    let argv: Vec<String> = std::env::args().collect();
    if argv.len() < 2 {
        eprintln!("usage: vh <static|...> --key value ...");
        std::process::exit(2);
    }
    let a = util::Args::parse(&argv[2..]);
    match argv[1].as_str() {
        "static" => stat::cmd_static(&a),
        "seq" => stat::cmd_seq(&a),
        "store" => store::cmd_store(&a),
        "dynamic" => dynamic::cmd_dynamic(&a),
        "sat" => sat::cmd_sat(&a),
        "io" => io::cmd_io(&a),
        "enc" => enc::cmd_enc(&a),
        "meta" => meta::cmd_meta(&a),
        "equiv" => equiv::cmd_equiv(&a),
        "ext" => ext::cmd_ext(&a),
        "extone" => ext::cmd_extone(&a),
        c => {
            eprintln!("unknown command {}", c);
            std::process::exit(2);
        }
    }
}
