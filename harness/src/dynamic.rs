//! C08 / C09: the six dynamic solver types driven through update / query histories.
use crate::obs::{self, Ctl, Shared};
use crate::store::Op;
use crate::util::{self, Args};
use crustabri::aa::Argument;
use crustabri::dynamics::assumptions_on_attacks::{
    DynamicCompleteSemanticsSolverAttacks, DynamicStableSemanticsSolverAttacks,
};
use crustabri::dynamics::{
    DummyDynamicConstraintsEncoder, DynamicCompleteSemanticsSolver, DynamicPreferredSemanticsSolver,
    DynamicSolver, DynamicStableSemanticsSolver,
};
use crustabri::solvers::{
    CompleteSemanticsSolver, CredulousAcceptanceComputer, PreferredSemanticsSolver,
    SemiStableSemanticsSolver, SkepticalAcceptanceComputer, StableSemanticsSolver,
};
use rand::rngs::StdRng;
use rand::seq::SliceRandom;
use rand::{Rng, SeedableRng};
use serde_json::{json, Value};
use std::collections::{BTreeMap, BTreeSet};
use std::panic::{catch_unwind, AssertUnwindSafe};

pub trait Dyn: DynamicSolver<usize> + CredulousAcceptanceComputer<usize> + SkepticalAcceptanceComputer<usize> {}
impl<X> Dyn for X where X: DynamicSolver<usize> + CredulousAcceptanceComputer<usize> + SkepticalAcceptanceComputer<usize> {}

/// (solver, semantics answered, supports DC, supports DS, semantics a DC certificate belongs to)
pub fn make(kind: &str, ctl: &Shared) -> (Box<dyn Dyn>, &'static str, bool, bool) {
    let f = || obs::factory(ctl);
    if let Some(fs) = kind.strip_prefix("coatt") {
        let factor: f64 = fs.parse().unwrap();
        return (Box::new(DynamicCompleteSemanticsSolverAttacks::new_with_sat_solver_factory_and_arg_factor(f(), factor)), "CO", true, false);
    }
    if let Some(fs) = kind.strip_prefix("statt") {
        let factor: f64 = fs.parse().unwrap();
        return (Box::new(DynamicStableSemanticsSolverAttacks::new_with_sat_solver_factory_and_arg_factor(f(), factor)), "ST", true, true);
    }
    match kind {
        "co" => (Box::new(DynamicCompleteSemanticsSolver::new_with_sat_solver_factory(f())), "CO", true, false),
        "st" => (Box::new(DynamicStableSemanticsSolver::new_with_sat_solver_factory(f())), "ST", true, true),
        "pr" => (Box::new(DynamicPreferredSemanticsSolver::new_with_sat_solver_factory(f())), "PR", false, true),
        "dummyco" => {
            let c1 = ctl.clone();
            (Box::new(DummyDynamicConstraintsEncoder::new(
                Some(Box::new(move |af| Box::new(CompleteSemanticsSolver::new_with_sat_solver_factory(af, obs::factory(&c1))))), None)), "CO", true, false)
        }
        "dummyst" => {
            let c1 = ctl.clone();
            let c2 = ctl.clone();
            (Box::new(DummyDynamicConstraintsEncoder::new(
                Some(Box::new(move |af| Box::new(StableSemanticsSolver::new_with_sat_solver_factory(af, obs::factory(&c1))))),
                Some(Box::new(move |af| Box::new(StableSemanticsSolver::new_with_sat_solver_factory(af, obs::factory(&c2))))))), "ST", true, true)
        }
        "dummypr" => {
            let c1 = ctl.clone();
            let c2 = ctl.clone();
            (Box::new(DummyDynamicConstraintsEncoder::new(
                Some(Box::new(move |af| Box::new(CompleteSemanticsSolver::new_with_sat_solver_factory(af, obs::factory(&c1))))),
                Some(Box::new(move |af| Box::new(PreferredSemanticsSolver::new_with_sat_solver_factory(af, obs::factory(&c2))))))), "PR", true, true)
        }
        "dummysst" => {
            let c1 = ctl.clone();
            let c2 = ctl.clone();
            (Box::new(DummyDynamicConstraintsEncoder::new(
                Some(Box::new(move |af| Box::new(SemiStableSemanticsSolver::new_with_sat_solver_factory(af, obs::factory(&c1))))),
                Some(Box::new(move |af| Box::new(SemiStableSemanticsSolver::new_with_sat_solver_factory(af, obs::factory(&c2))))))), "SST", true, true)
        }
        _ => panic!("unknown dynamic solver kind {}", kind),
    }
}

fn labels_of(v: Vec<&Argument<usize>>) -> Vec<usize> {
    v.iter().map(|a| *a.label()).collect()
}

fn do_update(s: &mut Box<dyn Dyn>, o: &Op) -> &'static str {
    let r = catch_unwind(AssertUnwindSafe(|| match o.op.as_str() {
        "newarg" => {
            s.new_argument(o.a);
            true
        }
        "rmarg" => s.remove_argument(&o.a).is_ok(),
        "newatt" => s.new_attack(&o.a, &o.b).is_ok(),
        "rmatt" => s.remove_attack(&o.a, &o.b).is_ok(),
        _ => panic!("bad op"),
    }));
    match r {
        Ok(true) => "ok",
        Ok(false) => "err",
        Err(_) => "panic",
    }
}

fn do_query(s: &mut Box<dyn Dyn>, sem: &str, kind: &str, arg: usize, cert: bool) -> Value {
    let r = catch_unwind(AssertUnwindSafe(|| match (kind, cert) {
        ("DC", false) => (s.is_credulously_accepted(&arg), None),
        ("DC", true) => {
            let (b, e) = s.is_credulously_accepted_with_certificate(&arg);
            (b, e.map(labels_of))
        }
        ("DS", false) => (s.is_skeptically_accepted(&arg), None),
        ("DS", true) => {
            let (b, e) = s.is_skeptically_accepted_with_certificate(&arg);
            (b, e.map(labels_of))
        }
        _ => panic!("bad query"),
    }));
    match r {
        Ok((b, e)) => json!({"ev": "q", "sem": sem, "kind": kind, "arg": arg, "cert": cert, "st": if b { "yes" } else { "no" },
            "has_ext": e.is_some(), "ext": e.unwrap_or_default(), "panic": ""}),
        Err(e) => {
            // the per-query cap on SAT calls was hit: the query was not going to terminate (C18)
            let capped = e.downcast_ref::<crate::obs::CapExceeded>().is_some();
            json!({"ev": "q", "sem": sem, "kind": kind, "arg": arg, "cert": cert, "st": "none", "has_ext": false, "ext": [],
                "panic": if capped { "SAT-call cap exceeded".to_string() } else { util::panic_message(&e) }, "capped": capped})
        }
    }
}

/// tiny generator-side model (only used to *choose* operations; the judge is TLC with Store.tla)
#[derive(Default, Clone)]
struct Gen {
    live: BTreeSet<usize>,
    att: BTreeSet<(usize, usize)>,
}

impl Gen {
    fn apply(&mut self, o: &Op) {
        match o.op.as_str() {
            "newarg" => {
                self.live.insert(o.a);
            }
            "rmarg" => {
                if self.live.remove(&o.a) {
                    self.att.retain(|(x, y)| *x != o.a && *y != o.a);
                }
            }
            "newatt" => {
                if self.live.contains(&o.a) && self.live.contains(&o.b) {
                    self.att.insert((o.a, o.b));
                }
            }
            "rmatt" => {
                self.att.remove(&(o.a, o.b));
            }
            _ => {}
        }
    }
    /// a redundant or invalid operation for the current state
    fn bad_op(&self, rng: &mut StdRng, universe: usize) -> Option<Op> {
        let live: Vec<usize> = self.live.iter().cloned().collect();
        let dead: Vec<usize> = (1..=universe + 1).filter(|l| !self.live.contains(l)).collect();
        let atts: Vec<(usize, usize)> = self.att.iter().cloned().collect();
        for _ in 0..20 {
            match rng.gen_range(0..7) {
                0 if !live.is_empty() => return Some(Op { op: "newarg".into(), a: *live.choose(rng).unwrap(), b: 0 }),
                1 if !atts.is_empty() => {
                    let p = atts.choose(rng).unwrap();
                    return Some(Op { op: "newatt".into(), a: p.0, b: p.1 });
                }
                2 if !dead.is_empty() => return Some(Op { op: "rmarg".into(), a: *dead.choose(rng).unwrap(), b: 0 }),
                3 if !live.is_empty() => {
                    let a = *live.choose(rng).unwrap();
                    let b = *live.choose(rng).unwrap();
                    if !self.att.contains(&(a, b)) {
                        return Some(Op { op: "rmatt".into(), a, b });
                    }
                }
                4 if !live.is_empty() && !dead.is_empty() => {
                    let a = *live.choose(rng).unwrap();
                    let d = *dead.choose(rng).unwrap();
                    return Some(if rng.gen_bool(0.5) { Op { op: "rmatt".into(), a, b: d } } else { Op { op: "rmatt".into(), a: d, b: a } });
                }
                5 if !live.is_empty() && !dead.is_empty() => {
                    let a = *live.choose(rng).unwrap();
                    let d = *dead.choose(rng).unwrap();
                    return Some(if rng.gen_bool(0.5) { Op { op: "newatt".into(), a, b: d } } else { Op { op: "newatt".into(), a: d, b: a } });
                }
                6 if !dead.is_empty() => {
                    let d = *dead.choose(rng).unwrap();
                    return Some(Op { op: "newatt".into(), a: d, b: d });
                }
                _ => {}
            }
        }
        None
    }
    fn good_op(&self, rng: &mut StdRng, universe: usize) -> Op {
        let live: Vec<usize> = self.live.iter().cloned().collect();
        let dead: Vec<usize> = (1..=universe).filter(|l| !self.live.contains(l)).collect();
        let atts: Vec<(usize, usize)> = self.att.iter().cloned().collect();
        loop {
            let x: f64 = rng.gen();
            if x < 0.2 && !dead.is_empty() {
                return Op { op: "newarg".into(), a: *dead.choose(rng).unwrap(), b: 0 };
            } else if x < 0.3 && live.len() > 1 {
                return Op { op: "rmarg".into(), a: *live.choose(rng).unwrap(), b: 0 };
            } else if x < 0.7 && !live.is_empty() {
                let a = *live.choose(rng).unwrap();
                let b = *live.choose(rng).unwrap();
                if !self.att.contains(&(a, b)) {
                    return Op { op: "newatt".into(), a, b };
                }
            } else if !atts.is_empty() {
                let p = atts.choose(rng).unwrap();
                return Op { op: "rmatt".into(), a: p.0, b: p.1 };
            } else if live.is_empty() && !dead.is_empty() {
                return Op { op: "newarg".into(), a: *dead.choose(rng).unwrap(), b: 0 };
            }
        }
    }
}

pub fn op_json(o: &Op) -> Value {
    json!({"op": o.op, "a": o.a, "b": if o.op == "newarg" || o.op == "rmarg" { o.a } else { o.b }})
}

/// runs one history on one solver kind; `qpoints[i]` = query round after update i
fn run_history(kind: &str, updates: &[Op], qpoints: &[bool], seed: u64, oracle: &str, backend: &str) -> Vec<String> {
    // "bulk:" histories build a given framework: the judge recomputes the families only at the query rounds ("ub" + "sync" events)
    let (kind, bulk) = match kind.strip_prefix("bulk:") {
        Some(k) => (k, true),
        None => (kind, false),
    };
    let (kind, wide) = match kind.strip_prefix("wide:") {
        Some(k) => (k, true),
        None => (kind, false),
    };
    let ctl = Ctl::new(oracle != "real", vec![]);
    {
        let mut c = ctl.borrow_mut();
        c.keep_clauses = false;
        c.backend = backend.to_string();
        if oracle == "random" {
            c.rand_state = Some(seed | 1);
        }
        c.model_cap = 32;
    }
    let (mut s, sem, dc, ds) = make(kind, &ctl);
    let mut rng = StdRng::seed_from_u64(seed);
    let certsem = if kind == "dummypr" { "CO" } else { sem };
    let mut lines = vec![json!({"ev": "reset", "kind": kind, "sem": sem, "certsem_dc": certsem, "oracle": oracle, "wide": wide}).to_string()];
    let mut g = Gen::default();
    for (i, o) in updates.iter().enumerate() {
        let res = do_update(&mut s, o);
        g.apply(o);
        lines.push(json!({"ev": if bulk { "ub" } else { "u" }, "o": op_json(o), "res": res}).to_string());
        if qpoints[i] && bulk {
            lines.push(json!({"ev": "sync"}).to_string());
        }
        if qpoints[i] {
            let mut live: Vec<usize> = g.live.iter().cloned().collect();
            live.shuffle(&mut rng);
            let mut qs: Vec<(usize, &str, bool)> = vec![];
            for a in &live {
                if dc {
                    qs.push((*a, "DC", rng.gen_bool(0.5)));
                }
                if ds {
                    qs.push((*a, "DS", rng.gen_bool(0.5)));
                }
            }
            // repeat a few queries with the other certificate flag (cache hits within the same epoch)
            let extra: Vec<(usize, &str, bool)> = qs.iter().filter(|_| rng.gen_bool(0.4)).map(|(a, k, c)| (*a, *k, !*c)).collect();
            qs.extend(extra);
            qs.shuffle(&mut rng);
            for (a, k, c) in qs {
                // a query that makes more than 400 SAT calls on these small frameworks is not going to terminate (C18)
                {
                    let mut cm = ctl.borrow_mut();
                    cm.cap = cm.n_solve + 400;
                }
                lines.push(do_query(&mut s, sem, k, a, c).to_string());
            }
        }
    }
    if wide {
        if let Some(a) = g.live.iter().next() {
            let mut q = do_query(&mut s, sem, if dc { "DC" } else { "DS" }, *a, false);
            q["ev"] = json!("usable");
            lines.push(q.to_string());
        }
    }
    let (n_solve, cut) = {
        let c = ctl.borrow();
        (c.n_solve, c.cut)
    };
    lines.push(json!({"ev": "end", "sat_calls": n_solve, "cut": cut}).to_string());
    lines
}

pub fn cmd_dynamic(a: &Args) {
    util::install_quiet_panic_hook();
    let out = a.get("out", "/dev/stdout");
    let threads = a.num("threads", 16);
    let seed = a.num("seed", 1) as u64;
    let kinds = a.list("kinds", "co,st,pr,coatt1,coatt1.5,coatt2,statt1,statt1.25,statt3,dummyco,dummyst,dummypr,dummysst");
    let mode = a.get("mode", "c08");
    let oracle = a.get("oracle", "real");
    let universe = a.num("labels", 3);
    let backend = a.get("backend", "cadical");
    let mut jobs: Vec<(String, Vec<Op>, Vec<bool>, u64)> = vec![];
    let hfile = a.get("hists", "");
    let mut rng = StdRng::seed_from_u64(seed);
    let mut n = 0u64;
    if !hfile.is_empty() {
        let txt = std::fs::read_to_string(&hfile).unwrap();
        let stride = a.num("stride", 1);
        for (hi, l) in txt.lines().filter(|l| !l.trim().is_empty()).enumerate() {
            if hi % stride != 0 {
                continue;
            }
            let v: Value = serde_json::from_str(l).unwrap();
            let mut ups: Vec<Op> = v["hist"].as_array().unwrap().iter().map(|o| Op {
                op: o["op"].as_str().unwrap().to_string(), a: o["a"].as_u64().unwrap() as usize, b: o["b"].as_u64().unwrap() as usize }).collect();
            if ups.is_empty() {
                continue;
            }
            if mode == "c09" {
                // insert 1..3 redundant / invalid operations at random positions
                let k = rng.gen_range(1..=3);
                for _ in 0..k {
                    let pos = rng.gen_range(0..=ups.len());
                    let mut g = Gen::default();
                    for o in &ups[..pos] {
                        g.apply(o);
                    }
                    if let Some(b) = g.bad_op(&mut rng, universe) {
                        ups.insert(pos, b);
                    }
                }
            }
            // query rounds: always at the end, plus random intermediate points (so that encodings and caches exist
            // before later updates, and several updates are replayed lazily at once)
            // histories exported by MCBatch carry explicit query rounds (marker "q"): a query round after the update before each
            // marker and at the end, nowhere else (the batch between two rounds must stay free of queries)
            let explicit = ups.iter().any(|o| o.op == "q");
            let mut qp: Vec<bool>;
            if explicit {
                let mut ups2: Vec<Op> = vec![];
                qp = vec![];
                for o in &ups {
                    if o.op == "q" {
                        if let Some(l) = qp.last_mut() {
                            *l = true;
                        }
                    } else {
                        ups2.push(o.clone());
                        qp.push(false);
                    }
                }
                ups = ups2;
                if ups.is_empty() {
                    continue;
                }
            } else {
                qp = ups.iter().map(|_| rng.gen_bool(0.35)).collect();
            }
            let last = qp.len() - 1;
            qp[last] = true;
            // --perhist K: each history runs on K of the solver kinds, in rotation (default: on all of them)
            let per = a.num("perhist", kinds.len()).min(kinds.len());
            for j in 0..per {
                let k = &kinds[(hi / stride * per + j) % kinds.len()];
                n += 1;
                jobs.push((k.clone(), ups.clone(), qp.clone(), seed.wrapping_mul(31).wrapping_add(n)));
            }
        }
    }
    // targets: given frameworks (5-9 arguments, the sets used for the static solvers) are built through an update history -- arguments and
    // attacks in random order, with detours (a dummy argument that is removed again, attacks toggled, spurious attacks removed later) --
    // then queried in random order with repetitions; finally one attack is removed, queried, put back, queried
    let tfile = a.get("targets", "");
    if !tfile.is_empty() {
        let per = a.num("perhist", 2).min(kinds.len());
        for (ti, spec) in crate::afio::read_afs(&tfile).iter().enumerate() {
            if spec.n == 0 {
                continue;
            }
            let mut ups: Vec<Op> = vec![];
            let mut order: Vec<usize> = (1..=spec.n).collect();
            order.shuffle(&mut rng);
            let dummy = spec.n + 1;
            let use_dummy = rng.gen_bool(0.5);
            for (i, l) in order.iter().enumerate() {
                ups.push(Op { op: "newarg".into(), a: *l, b: 0 });
                if use_dummy && i == spec.n / 2 {
                    ups.push(Op { op: "newarg".into(), a: dummy, b: 0 });
                    ups.push(Op { op: "newatt".into(), a: dummy, b: *l });
                    ups.push(Op { op: "newatt".into(), a: order[0], b: dummy });
                }
            }
            let mut atts = spec.att.clone();
            atts.shuffle(&mut rng);
            let mut spurious: Vec<(usize, usize)> = vec![];
            for (x, y) in &atts {
                ups.push(Op { op: "newatt".into(), a: *x, b: *y });
                if rng.gen_bool(0.15) {
                    ups.push(Op { op: "rmatt".into(), a: *x, b: *y });
                    ups.push(Op { op: "newatt".into(), a: *x, b: *y });
                }
                if rng.gen_bool(0.1) {
                    let p = (rng.gen_range(1..=spec.n), rng.gen_range(1..=spec.n));
                    if !spec.att.contains(&p) && !spurious.contains(&p) {
                        ups.push(Op { op: "newatt".into(), a: p.0, b: p.1 });
                        spurious.push(p);
                    }
                }
            }
            let mid = ups.len() - 1 - rng.gen_range(0..=atts.len().min(3));
            for p in &spurious {
                ups.push(Op { op: "rmatt".into(), a: p.0, b: p.1 });
            }
            if use_dummy {
                ups.push(Op { op: "rmarg".into(), a: dummy, b: 0 });
            }
            let mut qp: Vec<bool> = ups.iter().map(|_| false).collect();
            if rng.gen_bool(0.5) {
                qp[mid] = true;
            }
            let last = qp.len() - 1;
            qp[last] = true;
            if let Some((x, y)) = atts.first() {
                ups.push(Op { op: "rmatt".into(), a: *x, b: *y });
                qp.push(true);
                ups.push(Op { op: "newatt".into(), a: *x, b: *y });
                qp.push(true);
            }
            for j in 0..per {
                let k = &kinds[(ti * per + j) % kinds.len()];
                n += 1;
                jobs.push((format!("bulk:{}", k), ups.clone(), qp.clone(), seed.wrapping_mul(977).wrapping_add(n)));
            }
        }
    }
    let walks = a.num("walks", 0);
    let len = a.num("len", 100);
    for w in 0..walks {
        let nl = 3 + (w % 4);
        let mut g = Gen::default();
        let mut ups = vec![];
        let pbad = if mode == "c09" { 0.12 } else { 0.0 };
        for _ in 0..len {
            let o = if rng.gen_bool(pbad) { g.bad_op(&mut rng, nl).unwrap_or_else(|| g.good_op(&mut rng, nl)) } else { g.good_op(&mut rng, nl) };
            g.apply(&o);
            ups.push(o);
        }
        let pq = [0.2, 0.5, 0.9][w % 3];
        let mut qp: Vec<bool> = ups.iter().map(|_| rng.gen_bool(pq)).collect();
        let last = qp.len() - 1;
        qp[last] = true;
        let k = &kinds[w % kinds.len()];
        n += 1;
        jobs.push((k.clone(), ups, qp, seed.wrapping_mul(131).wrapping_add(n)));
    }
    // wide histories: 18-26 labels, hub-shaped attack patterns (an argument with 17+ outgoing attacks), many removals, invalid and
    // redundant operations; only the results of the update calls are judged (the families of such frameworks are out of reach),
    // and one final query checks that the solver is still usable
    let wide = a.num("wide", 0);
    for w in 0..wide {
        let nl = 18 + (w % 9);
        let mut g = Gen::default();
        let mut ups: Vec<Op> = vec![];
        for l in 1..=nl {
            ups.push(Op { op: "newarg".into(), a: l, b: 0 });
        }
        for o in &ups {
            g.apply(o);
        }
        let hub = 1 + (w % nl);
        for l in 1..=nl {
            if rng.gen_bool(0.9) {
                ups.push(Op { op: "newatt".into(), a: hub, b: l });
            }
        }
        for o in &ups[nl..] {
            g.apply(o);
        }
        let pbad = if mode == "c09" { 0.2 } else { 0.0 };
        for _ in 0..len {
            let x: f64 = rng.gen();
            let targets: Vec<usize> = g.att.iter().filter(|p| p.0 == hub && p.1 != hub).map(|p| p.1).collect();
            let non_targets: Vec<usize> = g.live.iter().filter(|l| !g.att.contains(&(hub, **l))).cloned().collect();
            let hub_alive = g.live.contains(&hub);
            let o = if x < 0.18 && g.live.len() > 6 && !targets.is_empty() {
                Op { op: "rmarg".into(), a: *targets.choose(&mut rng).unwrap(), b: 0 }
            } else if x < 0.32 && !targets.is_empty() {
                Op { op: "rmatt".into(), a: hub, b: *targets.choose(&mut rng).unwrap() }
            } else if x < 0.45 && pbad > 0.0 && hub_alive && !non_targets.is_empty() {
                // invalid: both arguments known, no such attack
                Op { op: "rmatt".into(), a: hub, b: *non_targets.choose(&mut rng).unwrap() }
            } else if x < 0.55 && hub_alive && !non_targets.is_empty() {
                Op { op: "newatt".into(), a: hub, b: *non_targets.choose(&mut rng).unwrap() }
            } else if rng.gen_bool(pbad) {
                g.bad_op(&mut rng, nl).unwrap_or_else(|| g.good_op(&mut rng, nl))
            } else {
                g.good_op(&mut rng, nl)
            };
            g.apply(&o);
            ups.push(o);
        }
        let qp: Vec<bool> = ups.iter().map(|_| false).collect();
        let k = &kinds[w % kinds.len()];
        n += 1;
        jobs.push((format!("wide:{}", k), ups, qp, seed.wrapping_mul(733).wrapping_add(n)));
    }
    let res = util::par_map(jobs, threads, |(k, ups, qp, s)| {
        util::install_quiet_panic_hook();
        run_history(k, ups, qp, *s, &oracle, &backend)
    });
    let _unused: BTreeMap<u8, u8> = BTreeMap::new();
    util::write_lines(&out, res.into_iter().flatten());
}
