//! C10: the real clause sets produced by the encoders, captured through the SatSolver trait, with all their models.
use crate::afio;
use crate::obs::{self, Ctl, Ent};
use crate::stat::raw_encoder;
use crate::util::{self, Args};
use crustabri::encodings::{ConstraintsEncoder, DefaultStableConstraintsEncoder};
use serde_json::json;
use std::collections::BTreeSet;
use std::panic::{catch_unwind, AssertUnwindSafe};

pub fn cmd_enc(a: &Args) {
    util::install_quiet_panic_hook();
    let afs = afio::read_afs(&a.get("afs", ""));
    let out = a.get("out", "/dev/stdout");
    let threads = a.num("threads", 16);
    let model_cap = a.num("modelcap", 200000);
    let with_clauses_upto = a.num("clauses_upto", 9);
    let pad = a.get("pad", "no") == "yes";
    let encs = ["aux_cf", "aux_adm", "aux_co", "exp_cf", "exp_co", "hybrid", "stable"];
    // the same encoder objects serve a whole chunk of frameworks (as the solvers do for successive components and queries)
    let chunk = a.num("chunk", 6);
    let all: Vec<(usize, afio::AfSpec)> = afs.into_iter().enumerate().collect();
    let jobs: Vec<Vec<(usize, afio::AfSpec)>> = all.chunks(chunk).map(|c| c.to_vec()).collect();
    let res = util::par_map(jobs, threads, |specs| {
        util::install_quiet_panic_hook();
        let mut lines = vec![];
        let encoders: Vec<(&str, Box<dyn ConstraintsEncoder<usize>>)> = encs.iter().map(|e| {
            let b: Box<dyn ConstraintsEncoder<usize>> = if *e == "stable" { Box::<DefaultStableConstraintsEncoder>::default() } else { raw_encoder(e) };
            (*e, b)
        }).collect();
        for (idx, spec) in specs {
        // padded: the framework plus 35-70 sinks (compact ids): only the complete-semantics and stable encoders are run, the intended
        // family is lifted from the core by the judge
        let af = if pad { afio::build_padded(spec, *idx as u64 + 77) } else { afio::build_compact(spec) };
        let core_n = if pad { spec.n } else { 0 };
        let proj = afio::projection(&af);
        lines.push(json!({"ev": "af", "idx": idx, "tag": spec.tag, "n": af.n_arguments(), "args": proj["args"], "att": proj["att"]}).to_string());
        for (enc, e) in &encoders {
            let enc = *enc;
            for range in [false, true] {
                if enc == "stable" && range {
                    continue;
                }
                if enc == "exp_co" && crate::stat::exp_cost(&af) > 200_000.0 {
                    continue;
                }
                if pad && !["aux_co", "exp_co", "hybrid", "stable"].contains(&enc) {
                    continue;
                }
                if pad && range && enc != "aux_co" {
                    continue; // the range variables of the exp-style encodings are free for attacked arguments: 2^(number of sinks) models
                }
                let r = catch_unwind(AssertUnwindSafe(|| {
                    let ctl = Ctl::new(false, vec![]);
                    let fac = obs::factory(&ctl);
                    let mut solver = fac();
                    if range {
                        e.encode_constraints_and_range(&af, solver.as_mut());
                    } else {
                        e.encode_constraints(&af, solver.as_mut());
                    }
                    let nvars = solver.n_vars();
                    let argvar: Vec<isize> = af.argument_set().iter().map(|x| isize::from(e.arg_to_lit(x))).collect();
                    let labels: Vec<usize> = af.argument_set().iter().map(|x| *x.label()).collect();
                    let first_range = if range { e.first_range_var(af.n_arguments()) } else { 0 };
                    let rangevar: Vec<usize> = if range { af.argument_set().iter().map(|x| first_range + x.id()).collect() } else { vec![] };
                    let clauses: Vec<Vec<isize>> = ctl.borrow().log.iter().filter_map(|x| if let Ent::Clause(_, c) = x { Some(c.clone()) } else { None }).collect();
                    let (models, cut) = obs::all_models(&clauses, &[], model_cap, nvars);
                    // distinct projections (set of arguments, set of arguments whose range variable is true)
                    let mut projs: BTreeSet<(Vec<usize>, Vec<usize>)> = BTreeSet::new();
                    for m in &models {
                        let val = |v: usize| v >= 1 && v <= m.len() && m[v - 1];
                        let s: Vec<usize> = labels.iter().zip(argvar.iter()).filter(|(_, l)| if **l > 0 { val(**l as usize) } else { !val((-**l) as usize) }).map(|(x, _)| *x).collect();
                        let rr: Vec<usize> = labels.iter().zip(rangevar.iter()).filter(|(_, v)| val(**v)).map(|(x, _)| *x).collect();
                        projs.insert((s, rr));
                    }
                    // assignment_to_extension agrees with arg_to_lit on every model is checked by the solvers' checks; here the layout
                    let with_clauses = !pad && spec.n <= with_clauses_upto;
                    json!({"ev": "enc", "encoder": enc, "range": range, "core_n": core_n, "nvars": nvars, "argvar": argvar, "rangevar": rangevar,
                        "nclauses": clauses.len(), "clauses": if with_clauses { clauses.clone() } else { vec![] }, "with_clauses": with_clauses,
                        "models": projs.iter().map(|(s, r)| json!([s, r])).collect::<Vec<_>>(), "nmodels": models.len(), "cut": cut, "panic": false})
                }));
                match r {
                    Ok(v) => lines.push(v.to_string()),
                    Err(_) => lines.push(json!({"ev": "enc", "encoder": enc, "range": range, "core_n": core_n, "nvars": 0, "argvar": [], "rangevar": [], "nclauses": 0,
                        "clauses": [], "with_clauses": false, "models": [], "nmodels": 0, "cut": false, "panic": true}).to_string()),
                }
            }
        }
        }
        lines
    });
    util::write_lines(&out, res.into_iter().flatten());
}
