//! C10: the real clause sets produced by the encoders, captured through the SatSolver trait, with all their models.
use crate::afio;
use crate::obs::{self, Ctl, Ent};
use crate::stat::raw_encoder;
use crate::util::{self, Args};
use crustabri::encodings::{ConstraintsEncoder, DefaultStableConstraintsEncoder};
use serde_json::json;
use std::collections::BTreeSet;
use std::panic::{catch_unwind, AssertUnwindSafe};

pub fn cmd_enc(a: &Args) {
    util::install_quiet_panic_hook();
    let afs = afio::read_afs(&a.get("afs", ""));
    let out = a.get("out", "/dev/stdout");
    let threads = a.num("threads", 16);
    let model_cap = a.num("modelcap", 200000);
    let with_clauses_upto = a.num("clauses_upto", 9);
    let pad = a.get("pad", "no") == "yes";
    let encs = ["aux_cf", "aux_adm", "aux_co", "exp_cf", "exp_co", "hybrid", "stable"];
    // the same encoder objects serve a whole chunk of frameworks (as the solvers do for successive components and queries)
    let chunk = a.num("chunk", 6);
    let all: Vec<(usize, afio::AfSpec)> = afs.into_iter().enumerate().collect();
    let jobs: Vec<Vec<(usize, afio::AfSpec)>> = all.chunks(chunk).map(|c| c.to_vec()).collect();
    let res = util::par_map(jobs, threads, |specs| {
        util::install_quiet_panic_hook();
        let mut lines = vec![];
        let encoders: Vec<(&str, Box<dyn ConstraintsEncoder<usize>>)> = encs.iter().map(|e| {
            let b: Box<dyn ConstraintsEncoder<usize>> = if *e == "stable" { Box::<DefaultStableConstraintsEncoder>::default() } else { raw_encoder(e) };
            (*e, b)
        }).collect();
        for (idx, spec) in specs {
        // padded: the framework plus 35-70 sinks (compact ids): only the complete-semantics and stable encoders are run, the intended
        // family is lifted from the core by the judge
        let af = if pad { afio::build_padded(spec, *idx as u64 + 77) } else { afio::build_compact(spec) };
        let core_n = if pad { spec.n } else { 0 };
        let proj = afio::projection(&af);
        lines.push(json!({"ev": "af", "idx": idx, "tag": spec.tag, "n": af.n_arguments(), "args": proj["args"], "att": proj["att"]}).to_string());
        for (enc, e) in &encoders {
            let enc = *enc;
            for range in [false, true] {
                if enc == "stable" && range {
                    continue;
                }
                if enc == "exp_co" && crate::stat::exp_cost(&af) > 200_000.0 {
                    continue;
                }
                if pad && !["aux_co", "exp_co", "hybrid", "stable"].contains(&enc) {
                    continue;
                }
                if pad && range && enc != "aux_co" {
                    continue; // the range variables of the exp-style encodings are free for attacked arguments: 2^(number of sinks) models
                }
                let r = catch_unwind(AssertUnwindSafe(|| {
                    let ctl = Ctl::new(false, vec![]);
                    let fac = obs::factory(&ctl);
                    let mut solver = fac();
                    if range {
                        e.encode_constraints_and_range(&af, solver.as_mut());
                    } else {
                        e.encode_constraints(&af, solver.as_mut());
                    }
                    let nvars = solver.n_vars();
                    let argvar: Vec<isize> = af.argument_set().iter().map(|x| isize::from(e.arg_to_lit(x))).collect();
                    let labels: Vec<usize> = af.argument_set().iter().map(|x| *x.label()).collect();
                    let first_range = if range { e.first_range_var(af.n_arguments()) } else { 0 };
                    let rangevar: Vec<usize> = if range { af.argument_set().iter().map(|x| first_range + x.id()).collect() } else { vec![] };
                    let clauses: Vec<Vec<isize>> = ctl.borrow().log.iter().filter_map(|x| if let Ent::Clause(_, c) = x { Some(c.clone()) } else { None }).collect();
                    let (models, cut) = obs::all_models(&clauses, &[], model_cap, nvars);
                    // distinct projections (set of arguments, set of arguments whose range variable is true)
                    let mut projs: BTreeSet<(Vec<usize>, Vec<usize>)> = BTreeSet::new();
                    for m in &models {
                        let val = |v: usize| v >= 1 && v <= m.len() && m[v - 1];
                        let s: Vec<usize> = labels.iter().zip(argvar.iter()).filter(|(_, l)| if **l > 0 { val(**l as usize) } else { !val((-**l) as usize) }).map(|(x, _)| *x).collect();
                        let rr: Vec<usize> = labels.iter().zip(rangevar.iter()).filter(|(_, v)| val(**v)).map(|(x, _)| *x).collect();
                        projs.insert((s, rr));
                    }
                    // assignment_to_extension agrees with arg_to_lit on every model is checked by the solvers' checks; here the layout
                    let with_clauses = !pad && spec.n <= with_clauses_upto;
                    json!({"ev": "enc", "encoder": enc, "range": range, "core_n": core_n, "nvars": nvars, "argvar": argvar, "rangevar": rangevar,
                        "nclauses": clauses.len(), "clauses": if with_clauses { clauses.clone() } else { vec![] }, "with_clauses": with_clauses,
                        "models": projs.iter().map(|(s, r)| json!([s, r])).collect::<Vec<_>>(), "nmodels": models.len(), "cut": cut, "panic": false})
                }));
                match r {
                    Ok(v) => lines.push(v.to_string()),
                    Err(_) => lines.push(json!({"ev": "enc", "encoder": enc, "range": range, "core_n": core_n, "nvars": 0, "argvar": [], "rangevar": [], "nclauses": 0,
                        "clauses": [], "with_clauses": false, "models": [], "nmodels": 0, "cut": false, "panic": true}).to_string()),
                }
            }
        }
        }
        lines
    });
    let mut all_lines: Vec<String> = res.into_iter().flatten().collect();
    // huge frameworks (65 540 .. 131 080 arguments, ids above 2^16 and 2^17): 8-12 core arguments with low and high ids carry random
    // attacks, every other argument is isolated (hence in every complete / stable extension: product theorem).  The judge gets the core
    // framework and the models projected on it, plus the harness' own observation that every isolated argument is true in every model.
    let nhuge = a.num("huge", 0);
    if nhuge > 0 {
        use rand::{Rng, SeedableRng};
        let seed = a.num("seed", 1) as u64;
        let jobs: Vec<usize> = (0..nhuge).collect();
        let res = util::par_map(jobs, threads.min(4), |i| {
            util::install_quiet_panic_hook();
            let mut rng = rand::rngs::StdRng::seed_from_u64(seed.wrapping_mul(7919).wrapping_add(*i as u64));
            let n = [65_540usize, 70_000, 131_080][*i % 3];
            let mut core: Vec<usize> = vec![0, 1, 2, 3, 65_536, 65_537, 65_538, 65_539];
            if n > 131_076 {
                core.extend([131_072, 131_073, 131_074, 131_075]);
            }
            let labels: Vec<usize> = (1..=n).collect();
            let mut af = crustabri::aa::AAFramework::new_with_argument_set(crustabri::aa::ArgumentSet::new_with_labels(&labels));
            let mut att: Vec<Vec<usize>> = vec![];
            for x in &core {
                for y in &core {
                    if x != y && rng.gen_bool(0.3) {
                        af.new_attack(&(x + 1), &(y + 1)).unwrap();
                        att.push(vec![x + 1, y + 1]);
                    }
                }
            }
            let core_labels: Vec<usize> = core.iter().map(|x| x + 1).collect();
            let mut lines = vec![json!({"ev": "af", "idx": 1_000_000 + i, "tag": "huge", "n": n, "args": core_labels, "att": att}).to_string()];
            for enc in ["aux_co", "exp_co", "hybrid", "stable"] {
                let e: Box<dyn ConstraintsEncoder<usize>> = if enc == "stable" { Box::<DefaultStableConstraintsEncoder>::default() } else { raw_encoder(enc) };
                let r = catch_unwind(AssertUnwindSafe(|| {
                    let ctl = Ctl::new(false, vec![]);
                    let fac = obs::factory(&ctl);
                    let mut solver = fac();
                    e.encode_constraints(&af, solver.as_mut());
                    let nvars = solver.n_vars();
                    let lit_of = |id: usize| isize::from(e.arg_to_lit(af.argument_set().get_argument_by_id(id)));
                    let argvar: Vec<isize> = core.iter().map(|id| lit_of(*id)).collect();
                    let clauses: Vec<Vec<isize>> = ctl.borrow().log.iter().filter_map(|x| if let Ent::Clause(_, c) = x { Some(c.clone()) } else { None }).collect();
                    let (models, cut) = obs::all_models(&clauses, &[], 64, nvars);
                    let mut projs: BTreeSet<Vec<usize>> = BTreeSet::new();
                    let mut fillers_ok = true;
                    let is_core: std::collections::HashSet<usize> = core.iter().cloned().collect();
                    let all_lits: Vec<isize> = (0..n).map(lit_of).collect();
                    for m in &models {
                        let val = |l: isize| { let v = l.unsigned_abs(); let b = v >= 1 && v <= m.len() && m[v - 1]; if l > 0 { b } else { !b } };
                        projs.insert(core.iter().filter(|id| val(all_lits[**id])).map(|id| id + 1).collect());
                        fillers_ok &= (0..n).all(|id| is_core.contains(&id) || val(all_lits[id]));
                    }
                    let empty: Vec<usize> = vec![];
                    json!({"ev": "enc", "encoder": enc, "range": false, "core_n": 0, "nvars": nvars, "argvar": argvar, "rangevar": [], "huge_n": n, "fillers_ok": fillers_ok,
                        "nclauses": clauses.len(), "clauses": [], "with_clauses": false,
                        "models": projs.iter().map(|s| json!([s, empty])).collect::<Vec<_>>(), "nmodels": models.len(), "cut": cut, "panic": false})
                }));
                match r {
                    Ok(v) => lines.push(v.to_string()),
                    Err(_) => lines.push(json!({"ev": "enc", "encoder": enc, "range": false, "core_n": 0, "nvars": 0, "argvar": [], "rangevar": [], "huge_n": n, "fillers_ok": false,
                        "nclauses": 0, "clauses": [], "with_clauses": false, "models": [], "nmodels": 0, "cut": false, "panic": true}).to_string()),
                }
            }
            lines
        });
        all_lines.extend(res.into_iter().flatten());
    }
    util::write_lines(&out, all_lines.into_iter());
}
