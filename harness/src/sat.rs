//! C15: the incremental SAT contract on CadicalSolver and ExternalSatSolver.
use crate::util::{self, Args};
use crustabri::sat::{CadicalSolver, ExternalSatSolver, Literal, SatSolver, SolvingResult};
use rand::rngs::StdRng;
use rand::{Rng, SeedableRng};
use serde_json::{json, Value};
use std::panic::{catch_unwind, AssertUnwindSafe};

#[derive(Clone, Debug)]
pub enum SOp {
    Add(Vec<isize>),
    Reserve(usize),
    Solve(Vec<isize>),
}

pub fn mk_backend(name: &str) -> Box<dyn SatSolver> {
    if name == "cadical" {
        return Box::new(CadicalSolver::default());
    }
    // ext:<program>[:opt[:opt...]]
    let parts: Vec<&str> = name.split('|').collect();
    let prog = parts[0].strip_prefix("ext:").unwrap().to_string();
    let opts: Vec<String> = parts[1..].iter().map(|s| s.to_string()).collect();
    Box::new(ExternalSatSolver::new(prog, opts))
}

fn run(backend: &str, ops: &[SOp]) -> Vec<String> {
    let mut lines = vec![json!({"ev": "reset", "backend": backend}).to_string()];
    let mut s = mk_backend(backend);
    for o in ops {
        match o {
            SOp::Add(c) => {
                let r = catch_unwind(AssertUnwindSafe(|| s.add_clause(c.iter().map(|l| Literal::from(*l)).collect())));
                lines.push(json!({"ev": "add", "lits": c, "panic": r.is_err()}).to_string());
            }
            SOp::Reserve(k) => {
                s.reserve(*k);
                lines.push(json!({"ev": "reserve", "k": k}).to_string());
            }
            SOp::Solve(a) => {
                let r = catch_unwind(AssertUnwindSafe(|| {
                    let al: Vec<Literal> = a.iter().map(|l| Literal::from(*l)).collect();
                    let res = if al.is_empty() { s.solve() } else { s.solve_under_assumptions(&al) };
                    let nv = s.n_vars();
                    match res {
                        SolvingResult::Satisfiable(m) => {
                            let mut model: Vec<isize> = vec![];
                            // every declared variable can be queried
                            let q = catch_unwind(AssertUnwindSafe(|| {
                                let mut v = vec![];
                                for x in 1..=nv {
                                    match m.value_of(x) {
                                        Some(true) => v.push(x as isize),
                                        Some(false) => v.push(-(x as isize)),
                                        None => {}
                                    }
                                }
                                v
                            }));
                            let ok = q.is_ok();
                            if let Ok(v) = q {
                                model = v;
                            } else {
                                for (x, b) in m.iter() {
                                    match b {
                                        Some(true) => model.push(x as isize),
                                        Some(false) => model.push(-(x as isize)),
                                        None => {}
                                    }
                                }
                            }
                            ("sat", model, nv, ok)
                        }
                        SolvingResult::Unsatisfiable => ("unsat", vec![], nv, true),
                        SolvingResult::Unknown => ("unknown", vec![], nv, true),
                    }
                }));
                let (res, model, nv, ok) = r.unwrap_or(("panic", vec![], 0, true));
                lines.push(json!({"ev": "solve", "assumps": a, "res": res, "model": model, "nvars": nv, "query_ok": ok}).to_string());
            }
        }
    }
    lines
}

fn assumption_sets(nv: isize) -> Vec<Vec<isize>> {
    let mut v: Vec<Vec<isize>> = vec![vec![]];
    for a in 1..=nv {
        v.push(vec![a, -a]); // contradictory assumptions: unsat for this call only
        for sa in [a, -a] {
            v.push(vec![sa]);
            for b in (a + 1)..=nv {
                for sb in [b, -b] {
                    v.push(vec![sa, sb]);
                }
            }
        }
    }
    v
}

pub fn cmd_sat(a: &Args) {
    util::install_quiet_panic_hook();
    let out = a.get("out", "/dev/stdout");
    let threads = a.num("threads", 16);
    let seed = a.num("seed", 1) as u64;
    let backends: Vec<String> = a.get("backends", "cadical").split(',').map(|s| s.to_string()).collect();
    let mut jobs: Vec<(String, Vec<SOp>)> = vec![];
    let mut rng = StdRng::seed_from_u64(seed);
    let hfile = a.get("hists", "");
    if !hfile.is_empty() {
        let txt = std::fs::read_to_string(&hfile).unwrap();
        let stride = a.num("stride", 1);
        for (hi, l) in txt.lines().filter(|l| !l.trim().is_empty()).enumerate() {
            if hi % stride != 0 {
                continue;
            }
            let v: Value = serde_json::from_str(l).unwrap();
            let mut ops: Vec<SOp> = vec![];
            let asets = assumption_sets(3);
            for o in v["hist"].as_array().unwrap() {
                if o["op"] == "add" {
                    ops.push(SOp::Add(o["lits"].as_array().unwrap().iter().map(|x| x.as_i64().unwrap() as isize).collect()));
                } else {
                    ops.push(SOp::Reserve(o["k"].as_u64().unwrap() as usize));
                }
                // a solve between additions: clauses added between calls are taken into account, assumptions are not kept
                ops.push(SOp::Solve(asets[rng.gen_range(0..asets.len())].clone()));
            }
            for s in &asets {
                ops.push(SOp::Solve(s.clone()));
            }
            ops.push(SOp::Solve(vec![4])); // assumption on a variable never seen
            ops.push(SOp::Solve(vec![5, -5])); // contradictory assumptions on a variable never seen
            ops.push(SOp::Solve(vec![-6, 1, 6])); // ... among others
            ops.push(SOp::Solve(vec![]));
            for b in &backends {
                jobs.push((b.clone(), ops.clone()));
            }
        }
    }
    let walks = a.num("walks", 0);
    for _ in 0..walks {
        let nv = rng.gen_range(4..=8) as isize;
        let len = rng.gen_range(10..40);
        let mut ops = vec![];
        for _ in 0..len {
            let x: f64 = rng.gen();
            if x < 0.55 {
                let k = [0, 1, 1, 2, 2, 3, 3, 4][rng.gen_range(0..8)];
                let c: Vec<isize> = (0..k).map(|_| { let v = rng.gen_range(1..=nv); if rng.gen_bool(0.5) { v } else { -v } }).collect();
                if k == 0 && rng.gen_bool(0.8) { continue; }
                ops.push(SOp::Add(c));
            } else if x < 0.62 {
                ops.push(SOp::Reserve(rng.gen_range(1..=(nv as usize + 2))));
            } else {
                let k = rng.gen_range(0..4);
                let mut c: Vec<isize> = vec![];
                for _ in 0..k {
                    let v = rng.gen_range(1..=nv + 1);
                    let l = if rng.gen_bool(0.5) { v } else { -v };
                    // now and then the assumptions contradict each other
                    if !c.contains(&l) && (!c.contains(&-l) || rng.gen_bool(0.3)) { c.push(l); }
                }
                ops.push(SOp::Solve(c));
            }
        }
        ops.push(SOp::Solve(vec![]));
        for b in &backends {
            jobs.push((b.clone(), ops.clone()));
        }
    }
    // large random 3-CNF histories (40-160 variables, around the satisfiability threshold, multi-line models): TLC checks that
    // every model satisfies the clauses and assumptions; "unsat" is cross-checked between the backends (pair events)
    let bigwalks = a.num("bigwalks", 0);
    let mut bigjobs: Vec<Vec<SOp>> = vec![];
    for _ in 0..bigwalks {
        let nv = rng.gen_range(40..=160) as isize;
        let mut ops = vec![];
        let target = (nv as f64 * rng.gen_range(3.6..4.6)) as usize;
        let mut added = 0usize;
        while added < target {
            let burst = rng.gen_range(5..40);
            for _ in 0..burst {
                let mut c: Vec<isize> = vec![];
                while c.len() < 3 {
                    let v = rng.gen_range(1..=nv);
                    if !c.contains(&v) && !c.contains(&-v) {
                        c.push(if rng.gen_bool(0.5) { v } else { -v });
                    }
                }
                ops.push(SOp::Add(c));
                added += 1;
            }
            let k = rng.gen_range(0..4);
            let mut asm: Vec<isize> = vec![];
            for _ in 0..k {
                let v = rng.gen_range(1..=nv + 2);
                if !asm.contains(&v) && !asm.contains(&-v) {
                    asm.push(if rng.gen_bool(0.5) { v } else { -v });
                }
            }
            ops.push(SOp::Solve(asm));
        }
        ops.push(SOp::Solve(vec![]));
        bigjobs.push(ops);
    }
    // instances whose DIMACS text exceeds the 64 KiB pipe capacity (an implication chain over 7000-9000 variables): the text must reach the
    // external solver unchanged however it is cut into writes; same judgement (models satisfy everything, backends agree)
    if bigwalks > 0 {
        for nv in [7000isize, 9000] {
            let mut ops = vec![];
            for i in 1..nv {
                ops.push(SOp::Add(vec![-i, i + 1]));
            }
            ops.push(SOp::Solve(vec![]));
            ops.push(SOp::Solve(vec![1]));
            ops.push(SOp::Solve(vec![1, -nv]));
            ops.push(SOp::Add(vec![-(nv / 2)]));
            ops.push(SOp::Solve(vec![1]));
            ops.push(SOp::Solve(vec![nv / 2 + 1]));
            ops.push(SOp::Solve(vec![]));
            bigjobs.push(ops);
        }
    }
    let bigres = util::par_map(bigjobs, threads, |ops| {
        util::install_quiet_panic_hook();
        let runs: Vec<Vec<String>> = backends.iter().map(|b| run(b, ops)).collect();
        // pair events: the verdicts of the backends on the same call
        let mut lines: Vec<String> = vec![];
        let verdicts: Vec<Vec<String>> = runs.iter().map(|r| r.iter().filter_map(|l| {
            let v: Value = serde_json::from_str(l).unwrap();
            if v["ev"] == "solve" { Some(v["res"].as_str().unwrap().to_string()) } else { None }
        }).collect()).collect();
        for r in &runs {
            lines.extend(r.iter().cloned());
        }
        lines.push(json!({"ev": "reset", "backend": "pairs"}).to_string());
        for i in 0..verdicts[0].len() {
            let vs: Vec<&String> = verdicts.iter().map(|v| &v[i]).collect();
            lines.push(json!({"ev": "pair", "call": i, "backends": backends, "verdicts": vs}).to_string());
        }
        lines
    });
    let res = util::par_map(jobs, threads, |(b, ops)| {
        util::install_quiet_panic_hook();
        run(b, ops)
    });
    util::write_lines(&out, res.into_iter().flatten().chain(bigres.into_iter().flatten()));
}
