//! fakesat — the external SAT solver seen from the other side of the pipe (C06, C15, C16, C17).
//! A strict DIMACS checker + solver (CaDiCaL through crustabri's own wrapper) that logs what it received and can
//! be told to misbehave.  usage: fakesat [--log FILE] [--mode MODE]
//!   modes: ok | pad:<bytes> | earlypad:<bytes> | noread:<bytes> | interleave:<bytes> | lategarbage:<bytes> | split:<k> | early | silent | truncated | garbage | nomodel | crash | vnozero
use crustabri::sat::{CadicalSolver, Literal, SatSolver, SolvingResult};
use std::io::{Read, Write};

fn main() {
    let argv: Vec<String> = std::env::args().collect();
    let mut log: Option<String> = None;
    let mut mode = "ok".to_string();
    let mut counter: Option<String> = None;
    let mut i = 1;
    while i + 1 < argv.len() {
        match argv[i].as_str() {
            "--log" => log = Some(argv[i + 1].clone()),
            "--mode" => mode = argv[i + 1].clone(),
            "--counter" => counter = Some(argv[i + 1].clone()),
            _ => {}
        }
        i += 2;
    }
    // failat:K:<submode> -- the K-th call (counted in the --counter file, calls of one query are sequential) misbehaves as <submode>,
    // every other call is faithful: a failure of the exchange at one SAT-call position of a query
    if let Some(rest) = mode.clone().strip_prefix("failat:") {
        let (k, sub) = rest.split_once(':').unwrap_or((rest, "silent"));
        let k: usize = k.parse().unwrap();
        let path = counter.clone().expect("failat needs --counter");
        let c: usize = std::fs::read_to_string(&path).ok().and_then(|t| t.trim().parse().ok()).unwrap_or(0) + 1;
        let _ = std::fs::write(&path, format!("{}", c));
        mode = if c == k { sub.to_string() } else { "ok".to_string() };
    }
    let out = std::io::stdout();
    let mut out = out.lock();
    if mode == "silent" {
        return;
    }
    if mode == "early" {
        // answer before consuming stdin
        let _ = out.write_all(b"c early answer\n");
        let _ = out.flush();
    }
    let padline = "c padding padding padding padding padding padding padding padding\n";
    if let Some(n) = mode.strip_prefix("earlypad:") {
        // WriteFirstThenRead: N bytes of comments before consuming stdin
        let n: usize = n.parse().unwrap();
        let mut w = 0;
        while w < n {
            let _ = out.write_all(padline.as_bytes());
            w += padline.len();
        }
        let _ = out.flush();
    }
    if let Some(n) = mode.strip_prefix("noread:") {
        // ExitWithoutReading: N bytes of comments, then exit without consuming stdin and without a verdict
        let n: usize = n.parse().unwrap();
        let mut w = 0;
        while w < n {
            let _ = out.write_all(padline.as_bytes());
            w += padline.len();
        }
        let _ = out.flush();
        return;
    }
    let mut txt = String::new();
    if let Some(n) = mode.strip_prefix("interleave:") {
        // WriteWhileReading: a comment line after every 4 KiB chunk of stdin, at least N bytes of comments overall
        let n: usize = n.parse().unwrap();
        let mut raw: Vec<u8> = vec![];
        let mut buf = [0u8; 4096];
        let mut w = 0;
        let mut inp = std::io::stdin();
        loop {
            let k = inp.read(&mut buf).unwrap_or(0);
            if k == 0 {
                break;
            }
            raw.extend_from_slice(&buf[..k]);
            for _ in 0..8 {
                let _ = out.write_all(padline.as_bytes());
                w += padline.len();
            }
            let _ = out.flush();
        }
        while w < n {
            let _ = out.write_all(padline.as_bytes());
            w += padline.len();
        }
        txt = String::from_utf8_lossy(&raw).to_string();
    } else {
        std::io::stdin().read_to_string(&mut txt).unwrap();
    }
    if mode == "crash" {
        std::process::exit(3);
    }
    // strict parse
    let mut nv_h: i64 = -1;
    let mut nc_h: i64 = -1;
    let mut maxvar: i64 = 0;
    let mut clauses: Vec<Vec<isize>> = vec![];
    let mut cur: Vec<isize> = vec![];
    let mut wellformed = true;
    for line in txt.lines() {
        let l = line.trim();
        if l.is_empty() || l.starts_with('c') {
            continue;
        }
        if l.starts_with('p') {
            let w: Vec<&str> = l.split_whitespace().collect();
            if w.len() != 4 || w[1] != "cnf" || nv_h >= 0 {
                wellformed = false;
            } else {
                nv_h = w[2].parse().unwrap_or(-2);
                nc_h = w[3].parse().unwrap_or(-2);
            }
            continue;
        }
        if nv_h < 0 {
            wellformed = false;
        }
        for w in l.split_whitespace() {
            match w.parse::<isize>() {
                Ok(0) => clauses.push(std::mem::take(&mut cur)),
                Ok(n) => {
                    maxvar = maxvar.max(n.unsigned_abs() as i64);
                    cur.push(n)
                }
                Err(_) => wellformed = false,
            }
        }
    }
    if !cur.is_empty() {
        wellformed = false;
    }
    let header_ok = wellformed && nv_h >= maxvar && nc_h == clauses.len() as i64;
    if let Some(p) = &log {
        let rec = format!(
            "{{\"ev\":\"dimacs\",\"nv\":{},\"nc\":{},\"maxvar\":{},\"nclauses\":{},\"wellformed\":{},\"bytes\":{}}}\n",
            nv_h, nc_h, maxvar, clauses.len(), wellformed, txt.len()
        );
        if let Ok(mut f) = std::fs::OpenOptions::new().create(true).append(true).open(p) {
            let _ = f.write_all(rec.as_bytes());
        }
    }
    if !header_ok {
        // what a strict solver does: refuse
        eprintln!("fakesat: parse error (header nv={} nc={}, seen maxvar={} clauses={})", nv_h, nc_h, maxvar, clauses.len());
        std::process::exit(1);
    }
    let mut s = CadicalSolver::default();
    for c in &clauses {
        s.add_clause(c.iter().map(|l| Literal::from(*l)).collect());
    }
    s.reserve(nv_h as usize);
    let res = s.solve();
    let mut reply = String::new();
    if let Some(n) = mode.strip_prefix("pad:") {
        let n: usize = n.parse().unwrap();
        let line = "c padding padding padding padding padding padding padding padding\n";
        while reply.len() < n {
            reply.push_str(line);
        }
    }
    match res {
        SolvingResult::Satisfiable(a) => {
            reply.push_str("s SATISFIABLE\n");
            let lits: Vec<String> = (1..=nv_h as usize)
                .map(|v| if a.value_of(v) == Some(true) { format!("{}", v) } else { format!("-{}", v) })
                .collect();
            let k: usize = mode.strip_prefix("split:").map(|k| k.parse().unwrap()).unwrap_or(usize::MAX);
            match mode.as_str() {
                "nomodel" => {}
                m if m.starts_with("trunc:") => {
                    // model cut after K literals, wherever that falls
                    let kk: usize = m[6..].parse().unwrap();
                    reply.push_str("v ");
                    reply.push_str(&lits[..kk.min(lits.len())].join(" "));
                    reply.push('\n');
                }
                "truncated" => {
                    // model cut inside the v line, no terminating 0
                    reply.push_str("v ");
                    reply.push_str(&lits[..lits.len() / 2].join(" "));
                    reply.push('\n');
                }
                "vnozero" => {
                    reply.push_str("v ");
                    reply.push_str(&lits.join(" "));
                    reply.push('\n');
                }
                "garbage" => {
                    reply.push_str("v ");
                    reply.push_str(&lits.join(" "));
                    reply.push_str(" 0\n@@ not a dimacs line @@\n");
                }
                _ => {
                    if lits.is_empty() || k == 0 {
                        reply.push_str("v 0\n");
                    } else {
                        for chunk in lits.chunks(k.min(lits.len()).max(1)) {
                            reply.push_str("v ");
                            reply.push_str(&chunk.join(" "));
                            reply.push('\n');
                        }
                        reply.push_str("v 0\n");
                    }
                }
            }
        }
        // the failing modes fail on every call, whatever the verdict would have been
        SolvingResult::Unsatisfiable => match mode.as_str() {
            "truncated" => reply.push_str("s UNSATISFIA"),
            "garbage" => reply.push_str("s UNSATISFIABLE\n@@ not a dimacs line @@\n"),
            "nomodel" | "vnozero" => {}
            _ => reply.push_str("s UNSATISFIABLE\n"),
        },
        SolvingResult::Unknown => reply.push_str("s UNKNOWN\n"),
    }
    if let Some(n) = mode.strip_prefix("lategarbage:") {
        // a complete answer, N bytes of statistics, then a line that is not DIMACS (a solver crashing while it prints its statistics)
        let n: usize = n.parse().unwrap();
        let mut w = 0;
        while w < n {
            reply.push_str(padline);
            w += padline.len();
        }
        reply.push_str("@@ not a dimacs line @@\n");
    }
    let _ = out.write_all(reply.as_bytes());
    let _ = out.flush();
}
