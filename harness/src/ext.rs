//! C16: the exchange with an external solver process -- reply interpretation, output volume, header.
use crate::util::{self, Args};
use crustabri::sat::{ExternalSatSolver, Literal, SatSolver, SolvingResult};
use serde_json::{json, Value};
use std::io::Write;
use std::panic::{catch_unwind, AssertUnwindSafe};
use std::time::Instant;

fn text_of(kind: &str) -> &'static [u8] {
    let s: &'static str = match kind {
        "vBin" => return b"v 1 \xff\xfe 0",
        "bin" => return b"\xff\xfe\xc3\x28",
        "sSAT" => "s SATISFIABLE",
        "sUNSAT" => "s UNSATISFIABLE",
        "sOther" => "s UNKNOWN",
        "vA" => "v 1 -2",
        "vB0" => "v 3 0",
        "vAB0" => "v 1 -2 3 0",
        "v0" => "v 0",
        "vBare" => "v",
        "cmt" => "c some comment",
        "blank" => "",
        "garbage" => "hello world",
        "vOOB" => "v 9 0",
        "vNonLit" => "v x 0",
        _ => panic!("unknown line kind"),
    };
    s.as_bytes()
}

fn solve_json(s: &mut dyn SatSolver) -> Value {
    let r = catch_unwind(AssertUnwindSafe(|| match s.solve() {
        SolvingResult::Satisfiable(m) => {
            let model: Vec<isize> = m.iter().filter_map(|(v, b)| match b {
                Some(true) => Some(v as isize),
                Some(false) => Some(-(v as isize)),
                None => None,
            }).collect();
            ("sat", model)
        }
        SolvingResult::Unsatisfiable => ("unsat", vec![]),
        SolvingResult::Unknown => ("unknown", vec![]),
    }));
    match r {
        Ok((res, model)) => json!({"res": res, "model": model}),
        Err(_) => json!({"res": "abort", "model": []}),
    }
}

/// one call with a big reply, run in a child process of the harness so that a hang can be observed and killed
pub fn cmd_extone(a: &Args) {
    util::install_quiet_panic_hook();
    let fakesat = a.get("fakesat", "");
    let mode = a.get("mode", "ok");
    let nv = a.num("nvars", 6);
    let mode = if mode.starts_with("trunc:") { mode } else { mode };
    let mut s = ExternalSatSolver::new(fakesat, vec!["--mode".to_string(), mode]);
    for v in 1..nv {
        s.add_clause(vec![Literal::from(v as isize), Literal::from(-(v as isize + 1))]);
    }
    s.add_clause(vec![Literal::from(1)]);
    // input volume: redundant clauses (about 9 bytes each) so that the instance exceeds the pipe capacity as well
    let inkb = a.num("inkb", 0);
    for _ in 0..(inkb * 1024 / 9) {
        s.add_clause(vec![Literal::from(1), Literal::from(-2), Literal::from(3)]);
    }
    let j = solve_json(&mut s);
    println!("{}", j);
}

pub fn cmd_ext(a: &Args) {
    util::install_quiet_panic_hook();
    let out = a.get("out", "/dev/stdout");
    let threads = a.num("threads", 16);
    let tmp = a.get("tmp", "/verif/work/exttmp");
    std::fs::create_dir_all(&tmp).unwrap();
    let mut lines: Vec<String> = vec![];
    // (iii) replies
    let rfile = a.get("replies", "");
    if !rfile.is_empty() {
        let txt = std::fs::read_to_string(&rfile).unwrap();
        let replies: Vec<Vec<String>> = txt.lines().filter(|l| !l.trim().is_empty()).map(|l| {
            let v: Value = serde_json::from_str(l).unwrap();
            v["lines"].as_array().unwrap().iter().map(|k| k.as_str().unwrap().to_string()).collect()
        }).collect();
        let jobs: Vec<(usize, Vec<String>)> = replies.into_iter().enumerate().collect();
        let res = util::par_map(jobs, threads, |(i, kinds)| {
            util::install_quiet_panic_hook();
            let path = format!("{}/reply_{}.txt", tmp, i);
            let mut t: Vec<u8> = vec![];
            for (j, k) in kinds.iter().enumerate() {
                t.extend_from_slice(text_of(k));
                // the final newline is sometimes missing
                if j + 1 < kinds.len() || i % 3 != 0 {
                    t.push(b'\n');
                }
            }
            std::fs::File::create(&path).unwrap().write_all(&t).unwrap();
            let mut s = ExternalSatSolver::new("cat".to_string(), vec![path.clone()]);
            s.add_clause(vec![Literal::from(1), Literal::from(-2), Literal::from(3)]);
            let j = solve_json(&mut s);
            let _ = std::fs::remove_file(&path);
            json!({"ev": "reply", "lines": kinds, "res": j["res"], "model": j["model"]}).to_string()
        });
        lines.push(json!({"ev": "reset", "what": "replies"}).to_string());
        lines.extend(res);
    }
    // (ii) volumes: the call returns whatever the volume of the output
    let vols = a.list("volumes", "");
    if !vols.is_empty() {
        let fakesat = a.get("fakesat", "");
        let timeout_ms = a.num("timeout_ms", 15000) as u128;
        let me = std::env::current_exe().unwrap();
        lines.push(json!({"ev": "reset", "what": "volumes"}).to_string());
        let jobs: Vec<String> = vols.clone();
        let res = util::par_map(jobs, threads.min(4), |mode_in| {
            let t0 = Instant::now();
            // "<mode>@<KiB of input>"
            let (mode, inkb) = match mode_in.split_once('@') {
                Some((m, k)) => (m.to_string(), k.to_string()),
                None => (mode_in.clone(), "0".to_string()),
            };
            let mode = &mode;
            let mut child = std::process::Command::new(&me)
                .args(["extone", "--fakesat", &fakesat, "--mode", mode, "--inkb", &inkb, "--nvars", if mode.starts_with("trunc:") { "31" } else { "6" }])
                .stdout(std::process::Stdio::piped())
                .stderr(std::process::Stdio::null())
                .spawn()
                .unwrap();
            let mut finished = false;
            loop {
                match child.try_wait().unwrap() {
                    Some(_) => {
                        finished = true;
                        break;
                    }
                    None => {
                        if t0.elapsed().as_millis() > timeout_ms {
                            let _ = child.kill();
                            let _ = child.wait();
                            break;
                        }
                        std::thread::sleep(std::time::Duration::from_millis(5));
                    }
                }
            }
            let mut outp = String::new();
            if finished {
                use std::io::Read;
                child.stdout.take().unwrap().read_to_string(&mut outp).unwrap();
            }
            let j: Value = serde_json::from_str(outp.trim()).unwrap_or(json!({"res": "none", "model": []}));
            json!({"ev": "volume", "mode": mode, "inkb": inkb.parse::<u64>().unwrap_or(0), "finished": finished, "wall_ms": t0.elapsed().as_millis() as u64,
                   "res": j["res"], "model": j["model"]}).to_string()
        });
        lines.extend(res);
    }
    util::write_lines(&out, lines.into_iter());
}
