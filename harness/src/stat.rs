//! Static solvers: run queries on the real solver types under oracle exploration and record events.
use crate::afio::{self, AfSpec};
use crate::obs::{self, CapExceeded, Ctl, Ent, Shared, TracingEncoder};
use crate::util::{self, Args};
use crustabri::aa::{AAFramework, Argument};
use crustabri::encodings::{
    aux_var_constraints_encoder, exp_constraints_encoder, ConstraintsEncoder,
    HybridCompleteConstraintsEncoder,
};
use crustabri::solvers::{
    CompleteSemanticsSolver, CredulousAcceptanceComputer, GroundedSemanticsSolver,
    IdealSemanticsSolver, PreferredSemanticsSolver, SemiStableSemanticsSolver,
    SingleExtensionComputer, SkepticalAcceptanceComputer, StableSemanticsSolver,
    StageSemanticsSolver,
};
use serde_json::{json, Value};
use std::collections::BTreeMap;
use std::panic::{catch_unwind, AssertUnwindSafe};

pub fn raw_encoder(name: &str) -> Box<dyn ConstraintsEncoder<usize>> {
    match name {
        "aux_co" => Box::new(aux_var_constraints_encoder::new_for_complete_semantics()),
        "aux_adm" => Box::new(aux_var_constraints_encoder::new_for_admissibility()),
        "aux_cf" => Box::new(aux_var_constraints_encoder::new_for_conflict_freeness()),
        "exp_co" => Box::new(exp_constraints_encoder::new_for_complete_semantics()),
        "exp_cf" => Box::new(exp_constraints_encoder::new_for_conflict_freeness()),
        "hybrid" => Box::<HybridCompleteConstraintsEncoder>::default(),
        _ => panic!("unknown encoder {}", name),
    }
}

pub fn base_of(enc: &str) -> &'static str {
    match enc {
        "aux_co" | "exp_co" | "hybrid" => "CO",
        "aux_adm" => "ADM",
        "aux_cf" | "exp_cf" => "CF",
        _ => "NONE",
    }
}

/// encoders selectable (through the CLI or the library constructors) for a problem
pub fn encoders_for(sem: &str, kind: &str) -> Vec<&'static str> {
    match (sem, kind) {
        ("GR", _) | ("ST", _) => vec!["none"],
        ("CO", "SE") | ("CO", "DS") => vec!["none"],
        ("STG", _) => vec!["aux_cf", "exp_cf"],
        ("PR", "SE") => vec!["aux_adm", "aux_co", "exp_co", "hybrid"],
        _ => vec!["aux_co", "exp_co", "hybrid"],
    }
}

#[derive(Clone, Debug, PartialEq, Eq, PartialOrd, Ord)]
pub struct Outcome {
    pub st: Option<bool>,
    pub ext: Option<Vec<(usize, usize)>>,
    pub panic: Option<String>,
    pub capped: bool,
    pub faulted: bool,
}

fn ext_of(v: Vec<&Argument<usize>>) -> Vec<(usize, usize)> {
    v.iter().map(|a| (*a.label(), a.id())).collect()
}

/// size of the largest cartesian product the auxiliary-free ("exp") complete encoding would expand on this presentation of the
/// framework (duplicated attacks count): that encoding is exponential by design, so frameworks on which it needs more than
/// ~2*10^5 clauses for one argument are not given to it (a resource limit, not a behaviour the properties talk about)
pub fn exp_cost(af: &AAFramework<usize>) -> f64 {
    let mut worst: f64 = 0.0;
    for a in af.argument_set().iter() {
        let mut prod: f64 = 1.0;
        for att in af.iter_attacks_to(a) {
            let d = af.iter_attacks_to(att.attacker()).count() as f64;
            prod *= d.max(1.0);
        }
        worst = worst.max(prod);
    }
    worst
}

/// runs one query on a freshly built solver of the real type
pub fn run_query(
    af: &AAFramework<usize>,
    sem: &str,
    kind: &str,
    args: &[usize],
    cert: bool,
    enc: &str,
    ctl: &Shared,
) -> Outcome {
    let r = catch_unwind(AssertUnwindSafe(|| {
        let fac = || obs::factory(ctl);
        let encb = |e: &str| -> Box<dyn ConstraintsEncoder<usize>> {
            Box::new(TracingEncoder::new(ctl, raw_encoder(e)))
        };
        let argrefs: Vec<&usize> = args.iter().collect();
        match kind {
            "SE" => {
                let mut s: Box<dyn SingleExtensionComputer<usize> + '_> = match sem {
                    "GR" | "CO" => Box::new(GroundedSemanticsSolver::new(af)),
                    "PR" => Box::new(
                        PreferredSemanticsSolver::new_with_sat_solver_factory_and_constraints_encoder(
                            af, fac(), encb(enc))),
                    "ST" => Box::new(StableSemanticsSolver::new_with_sat_solver_factory(af, fac())),
                    "SST" => Box::new(
                        SemiStableSemanticsSolver::new_with_sat_solver_factory_and_constraints_encoder(
                            af, fac(), encb(enc))),
                    "STG" => Box::new(
                        StageSemanticsSolver::new_with_sat_solver_factory_and_constraints_encoder(
                            af, fac(), encb(enc))),
                    "ID" => Box::new(
                        IdealSemanticsSolver::new_with_sat_solver_factory_and_constraints_encoder(
                            af, fac(), encb(enc))),
                    _ => panic!("bad sem"),
                };
                let e = s.compute_one_extension();
                (None, e.map(ext_of))
            }
            "DC" => {
                let mut s: Box<dyn CredulousAcceptanceComputer<usize> + '_> = match sem {
                    "GR" => Box::new(GroundedSemanticsSolver::new(af)),
                    "CO" | "PR" => Box::new(
                        CompleteSemanticsSolver::new_with_sat_solver_factory_and_constraints_encoder(
                            af, fac(), encb(enc))),
                    "ST" => Box::new(StableSemanticsSolver::new_with_sat_solver_factory(af, fac())),
                    "SST" => Box::new(
                        SemiStableSemanticsSolver::new_with_sat_solver_factory_and_constraints_encoder(
                            af, fac(), encb(enc))),
                    "STG" => Box::new(
                        StageSemanticsSolver::new_with_sat_solver_factory_and_constraints_encoder(
                            af, fac(), encb(enc))),
                    "ID" => Box::new(
                        IdealSemanticsSolver::new_with_sat_solver_factory_and_constraints_encoder(
                            af, fac(), encb(enc))),
                    _ => panic!("bad sem"),
                };
                if cert {
                    let (st, e) = s.are_credulously_accepted_with_certificate(&argrefs);
                    (Some(st), e.map(ext_of))
                } else {
                    (Some(s.are_credulously_accepted(&argrefs)), None)
                }
            }
            "DS" => {
                let mut s: Box<dyn SkepticalAcceptanceComputer<usize> + '_> = match sem {
                    "GR" | "CO" => Box::new(GroundedSemanticsSolver::new(af)),
                    "PR" => Box::new(
                        PreferredSemanticsSolver::new_with_sat_solver_factory_and_constraints_encoder(
                            af, fac(), encb(enc))),
                    "ST" => Box::new(StableSemanticsSolver::new_with_sat_solver_factory(af, fac())),
                    "SST" => Box::new(
                        SemiStableSemanticsSolver::new_with_sat_solver_factory_and_constraints_encoder(
                            af, fac(), encb(enc))),
                    "STG" => Box::new(
                        StageSemanticsSolver::new_with_sat_solver_factory_and_constraints_encoder(
                            af, fac(), encb(enc))),
                    "ID" => Box::new(
                        IdealSemanticsSolver::new_with_sat_solver_factory_and_constraints_encoder(
                            af, fac(), encb(enc))),
                    _ => panic!("bad sem"),
                };
                if cert {
                    let (st, e) = s.are_skeptically_accepted_with_certificate(&argrefs);
                    (Some(st), e.map(ext_of))
                } else {
                    (Some(s.are_skeptically_accepted(&argrefs)), None)
                }
            }
            _ => panic!("bad kind"),
        }
    }));
    let (capped, faulted) = {
        let c = ctl.borrow();
        (c.capped, c.faulted)
    };
    match r {
        Ok((st, ext)) => Outcome { st, ext, panic: None, capped, faulted },
        Err(e) => {
            let msg = if e.downcast_ref::<CapExceeded>().is_some() {
                "CAP".to_string()
            } else {
                util::panic_message(&e)
            };
            Outcome { st: None, ext: None, panic: Some(msg), capped, faulted }
        }
    }
}

/// per SAT-solver instance (= per component): decoded component, number of calls, decoded candidates
#[derive(Clone, Debug, PartialEq, Eq, PartialOrd, Ord)]
pub struct CcSummary {
    pub labels: Vec<usize>,
    pub att: Vec<(usize, usize)>,
    pub range: bool,
    pub calls: usize,
    pub nsat: usize,
    pub returned: Vec<Vec<usize>>,
    pub decoded: bool,
    pub instances: usize,
}

pub fn cc_summaries(log: &[Ent]) -> Vec<CcSummary> {
    let mut m: BTreeMap<usize, CcSummary> = BTreeMap::new();
    let mut lits: BTreeMap<usize, Vec<isize>> = BTreeMap::new();
    for e in log {
        match e {
            Ent::New(i) => {
                m.insert(*i, CcSummary { labels: vec![], att: vec![], range: false, calls: 0, nsat: 0, returned: vec![], decoded: false, instances: 1 });
            }
            Ent::Encode { inst, range, labels, att, arglit, .. } => {
                if let Some(s) = m.get_mut(inst) {
                    s.labels = labels.clone();
                    let mut a = att.clone();
                    a.sort();
                    a.dedup();
                    s.att = a;
                    s.range = *range;
                    s.decoded = true;
                    lits.insert(*inst, arglit.clone());
                }
            }
            Ent::Solve { inst, res, model, .. } => {
                if let Some(s) = m.get_mut(inst) {
                    s.calls += 1;
                    if *res == 1 {
                        s.nsat += 1;
                        if let Some(al) = lits.get(inst) {
                            let mut set = vec![];
                            for (k, l) in al.iter().enumerate() {
                                let v = l.unsigned_abs();
                                let val = if v <= model.len() { model[v - 1] } else { -1 };
                                let truth = if *l > 0 { val == 1 } else { val == 0 };
                                if truth {
                                    set.push(s.labels[k]);
                                }
                            }
                            set.sort();
                            s.returned.push(set);
                        }
                    }
                }
            }
            _ => {}
        }
    }
    // the bound of C18 is per query and per component: add up the solver instances that worked on the same component
    let mut merged: BTreeMap<(Vec<usize>, Vec<(usize, usize)>), CcSummary> = BTreeMap::new();
    let mut res = vec![];
    for s in m.into_values() {
        if !s.decoded {
            res.push(s);
            continue;
        }
        let mut key_labels = s.labels.clone();
        key_labels.sort();
        match merged.get_mut(&(key_labels.clone(), s.att.clone())) {
            Some(t) => {
                t.calls += s.calls;
                t.nsat += s.nsat;
                t.returned.extend(s.returned.iter().cloned());
                t.range |= s.range;
                t.instances += 1;
            }
            None => {
                merged.insert((key_labels, s.att.clone()), s);
            }
        }
    }
    res.extend(merged.into_values());
    res
}

pub struct Explored {
    pub outcomes: BTreeMap<Outcome, usize>,
    pub ccs: BTreeMap<CcSummary, usize>,
    pub runs: usize,
    pub exhaustive: bool,
    pub max_calls: usize,
}

/// depth-first exploration of the SAT oracle's model choices (stateless model checking of the real code)
pub fn explore<F>(budget: usize, scripted: bool, cap: usize, backend: &str, mut run: F) -> Explored
where
    F: FnMut(&Shared) -> Outcome,
{
    let mut script: Vec<usize> = vec![];
    let mut ex = Explored { outcomes: BTreeMap::new(), ccs: BTreeMap::new(), runs: 0, exhaustive: scripted, max_calls: 0 };
    loop {
        let ctl = Ctl::new(scripted, script.clone());
        ctl.borrow_mut().cap = cap;
        ctl.borrow_mut().backend = backend.to_string();
        let o = run(&ctl);
        ex.runs += 1;
        *ex.outcomes.entry(o).or_insert(0) += 1;
        let c = ctl.borrow();
        ex.max_calls = ex.max_calls.max(c.n_solve);
        for s in cc_summaries(&c.log) {
            *ex.ccs.entry(s).or_insert(0) += 1;
        }
        if c.cut {
            ex.exhaustive = false;
        }
        if c.capped {
            // non-termination has been observed on this schedule: no need to pay for its siblings
            ex.exhaustive = false;
            break;
        }
        if !scripted {
            break;
        }
        let used = c.used.clone();
        drop(c);
        let mut p = used.len();
        let mut next = None;
        while p > 0 {
            p -= 1;
            if used[p].0 + 1 < used[p].1 {
                let mut s: Vec<usize> = used[..p].iter().map(|u| u.0).collect();
                s.push(used[p].0 + 1);
                next = Some(s);
                break;
            }
        }
        match next {
            None => break,
            Some(s) => script = s,
        }
        if ex.runs >= budget {
            ex.exhaustive = false;
            break;
        }
    }
    ex
}

pub fn outcome_json(o: &Outcome) -> Value {
    json!({
        "st": match o.st { Some(true) => "yes", Some(false) => "no", None => "none" },
        "has_ext": o.ext.is_some(),
        "ext": o.ext.clone().unwrap_or_default().iter().map(|(l, i)| vec![*l, *i]).collect::<Vec<_>>(),
        "panic": o.panic.clone().unwrap_or_default(),
        "capped": o.capped,
        "faulted": o.faulted,
    })
}

/// at most `cap` lists: all single arguments' worth is kept in proportion, pairs of mutual attackers first (disjunctions that are
/// accepted while neither member is), then a seeded sample of the others
fn sample_lists(all: Vec<Vec<usize>>, af: &AAFramework<usize>, cap: usize, seed: u64) -> Vec<Vec<usize>> {
    if cap == 0 || all.len() <= cap {
        return all;
    }
    use rand::seq::SliceRandom;
    use rand::SeedableRng;
    let mut rng = rand::rngs::StdRng::seed_from_u64(seed);
    let mutual = |v: &Vec<usize>| {
        v.len() == 2 && v[0] != v[1] && {
            let a = af.argument_set().get_argument(&v[0]).unwrap();
            let b = af.argument_set().get_argument(&v[1]).unwrap();
            af.iter_attacks_from(a).any(|t| t.attacked().id() == b.id()) && af.iter_attacks_from(b).any(|t| t.attacked().id() == a.id())
        }
    };
    let (mut first, mut rest): (Vec<Vec<usize>>, Vec<Vec<usize>>) = all.into_iter().partition(|v| mutual(v));
    first.shuffle(&mut rng);
    rest.shuffle(&mut rng);
    first.truncate(cap / 2);
    let k = cap - first.len();
    first.extend(rest.into_iter().take(k));
    first
}

fn arg_lists(labels: &[usize], k: usize) -> Vec<Vec<usize>> {
    let mut res: Vec<Vec<usize>> = labels.iter().map(|l| vec![*l]).collect();
    let mut last = res.clone();
    for _ in 1..k {
        let mut nxt = vec![];
        for l in &last {
            for a in labels {
                let mut v = l.clone();
                v.push(*a);
                nxt.push(v);
            }
        }
        res.extend(nxt.iter().cloned());
        last = nxt;
    }
    res
}

pub fn build_cred<'a>(af: &'a AAFramework<usize>, sem: &str, enc: &str, ctl: &Shared) -> Box<dyn CredulousAcceptanceComputer<usize> + 'a> {
    let fac = || obs::factory(ctl);
    let encb = |e: &str| -> Box<dyn ConstraintsEncoder<usize>> { Box::new(TracingEncoder::new(ctl, raw_encoder(e))) };
    match sem {
        "GR" => Box::new(GroundedSemanticsSolver::new(af)),
        "CO" | "PR" => Box::new(CompleteSemanticsSolver::new_with_sat_solver_factory_and_constraints_encoder(af, fac(), encb(enc))),
        "ST" => Box::new(StableSemanticsSolver::new_with_sat_solver_factory(af, fac())),
        "SST" => Box::new(SemiStableSemanticsSolver::new_with_sat_solver_factory_and_constraints_encoder(af, fac(), encb(enc))),
        "STG" => Box::new(StageSemanticsSolver::new_with_sat_solver_factory_and_constraints_encoder(af, fac(), encb(enc))),
        "ID" => Box::new(IdealSemanticsSolver::new_with_sat_solver_factory_and_constraints_encoder(af, fac(), encb(enc))),
        _ => panic!("bad sem"),
    }
}

pub fn build_skep<'a>(af: &'a AAFramework<usize>, sem: &str, enc: &str, ctl: &Shared) -> Box<dyn SkepticalAcceptanceComputer<usize> + 'a> {
    let fac = || obs::factory(ctl);
    let encb = |e: &str| -> Box<dyn ConstraintsEncoder<usize>> { Box::new(TracingEncoder::new(ctl, raw_encoder(e))) };
    match sem {
        "GR" | "CO" => Box::new(GroundedSemanticsSolver::new(af)),
        "PR" => Box::new(PreferredSemanticsSolver::new_with_sat_solver_factory_and_constraints_encoder(af, fac(), encb(enc))),
        "ST" => Box::new(StableSemanticsSolver::new_with_sat_solver_factory(af, fac())),
        "SST" => Box::new(SemiStableSemanticsSolver::new_with_sat_solver_factory_and_constraints_encoder(af, fac(), encb(enc))),
        "STG" => Box::new(StageSemanticsSolver::new_with_sat_solver_factory_and_constraints_encoder(af, fac(), encb(enc))),
        "ID" => Box::new(IdealSemanticsSolver::new_with_sat_solver_factory_and_constraints_encoder(af, fac(), encb(enc))),
        _ => panic!("bad sem"),
    }
}

/// C06: one solver object per (semantics, kind, encoder, backend) answers a seeded sequence of queries with repetitions and
/// alternating certificate flag; all statuses obtained for one query, in any configuration and at any position, must agree
pub fn cmd_seq(a: &Args) {
    use rand::rngs::StdRng;
    use rand::{Rng, SeedableRng};
    let afs = afio::read_afs(&a.get("afs", ""));
    let sems = a.list("sems", "GR,CO,PR,ST,SST,STG,ID");
    let presents = a.list("present", "compact");
    let backends: Vec<String> = a.get("backends", "cadical").split(',').map(|s| s.to_string()).collect();
    let seed: u64 = a.get("seed", "1").parse().unwrap();
    let out = a.get("out", "/dev/stdout");
    let threads: usize = a.get("threads", "16").parse().unwrap();
    let emit_q = a.get("emitq", "no") == "yes";
    let sems_for_fam = sems.clone();
    let jobs: Vec<(usize, AfSpec)> = afs.into_iter().enumerate().collect();
    let results = util::par_map(jobs, threads, |(idx, spec)| {
        util::install_quiet_panic_hook();
        let mut lines: Vec<String> = vec![];
        if spec.n == 0 {
            return lines;
        }
        for (pi, present) in presents.iter().enumerate() {
            let pseed = seed.wrapping_mul(1_000_003).wrapping_add((*idx as u64) * 17 + pi as u64);
            let af = afio::build(spec, present, pseed);
            let proj = afio::projection(&af);
            lines.push(json!({"ev": "af", "idx": idx, "tag": spec.tag, "present": present, "n": spec.n,
                "args": proj["args"], "ids": proj["ids"], "att": proj["att"], "sems": if emit_q { sems_for_fam.clone() } else { vec![] }}).to_string());
            let mut rng = StdRng::seed_from_u64(pseed);
            for sem in &sems {
                for kind in ["DC", "DS"] {
                    // (arg) -> list of (status, config description)
                    let mut by_arg: BTreeMap<Vec<usize>, Vec<(String, String)>> = BTreeMap::new();
                    let seqlen = 2 * spec.n + 4;
                    // queries over one argument or over a list of two (C07: a disjunction), each asked several times
                    let mut pool: Vec<Vec<usize>> = (1..=spec.n).map(|x| vec![x]).collect();
                    for _ in 0..2 {
                        let x = rng.gen_range(1..=spec.n);
                        let y = rng.gen_range(1..=spec.n);
                        pool.push(vec![x, y]);
                    }
                    let seq: Vec<(Vec<usize>, bool)> = (0..seqlen).map(|_| (pool[rng.gen_range(0..pool.len())].clone(), rng.gen_bool(0.5))).collect();
                    for enc in encoders_for(sem, kind) {
                        if enc == "exp_co" && exp_cost(&af) > 200_000.0 {
                            continue;
                        }
                        for backend in &backends {
                            if backend != "cadical" && enc == "none" && sem != "ST" {
                                continue; // no SAT solver involved
                            }
                            let ctl = Ctl::new(false, vec![]);
                            ctl.borrow_mut().backend = backend.clone();
                            ctl.borrow_mut().keep_clauses = false;
                            // the solver object lives across the whole sequence
                            let r = catch_unwind(AssertUnwindSafe(|| {
                                let mut res: Vec<(Vec<usize>, bool, String)> = vec![];
                                if kind == "DC" {
                                    let mut s = build_cred(&af, sem, enc, &ctl);
                                    for (arg, cert) in &seq {
                                        let refs: Vec<&usize> = arg.iter().collect();
                                        let q = catch_unwind(AssertUnwindSafe(|| if *cert { s.are_credulously_accepted_with_certificate(&refs).0 } else { s.are_credulously_accepted(&refs) }));
                                        res.push((arg.clone(), *cert, match q { Ok(true) => "yes".into(), Ok(false) => "no".into(), Err(_) => "panic".into() }));
                                    }
                                } else {
                                    let mut s = build_skep(&af, sem, enc, &ctl);
                                    for (arg, cert) in &seq {
                                        let refs: Vec<&usize> = arg.iter().collect();
                                        let q = catch_unwind(AssertUnwindSafe(|| if *cert { s.are_skeptically_accepted_with_certificate(&refs).0 } else { s.are_skeptically_accepted(&refs) }));
                                        res.push((arg.clone(), *cert, match q { Ok(true) => "yes".into(), Ok(false) => "no".into(), Err(_) => "panic".into() }));
                                    }
                                }
                                res
                            }));
                            let bname = if backend == "cadical" { "embedded" } else { "external" };
                            if let Ok(res) = r {
                                for (pos, (arg, cert, st)) in res.iter().enumerate() {
                                    by_arg.entry(arg.clone()).or_default().push((st.clone(), format!("{}/{}/{}/pos{}", enc, bname, if *cert { "cert" } else { "nocert" }, pos)));
                                }
                            } else {
                                by_arg.entry(vec![]).or_default().push(("panic".into(), format!("{}/{}/construction", enc, bname)));
                            }
                        }
                    }
                    for (arg, v) in &by_arg {
                        let statuses: Vec<&String> = v.iter().map(|x| &x.0).collect();
                        let mut distinct: Vec<&String> = statuses.clone();
                        distinct.sort();
                        distinct.dedup();
                        let detail: Vec<String> = if distinct.len() > 1 { v.iter().map(|x| format!("{}={}", x.1, x.0)).collect() } else { vec![] };
                        lines.push(json!({"ev": "agree", "sem": sem, "kind": kind, "args": arg, "statuses": distinct, "n": statuses.len(), "detail": detail}).to_string());
                        if emit_q && !arg.is_empty() {
                            // each distinct status obtained for this query (on a solver object that has answered other queries before)
                            for st in &distinct {
                                let how: Vec<String> = v.iter().filter(|x| &&x.0 == st).map(|x| x.1.clone()).take(3).collect();
                                lines.push(json!({"ev": "q", "sem": sem, "kind": kind, "args": arg, "cert": false, "encs": how, "oracle": "real", "backend": "seq",
                                    "out": {"st": if *st == "panic" { "none" } else { st.as_str() }, "has_ext": false, "ext": [], "panic": if *st == "panic" { "panic" } else { "" }, "capped": false, "faulted": false},
                                    "mult": 1, "runs": 1, "exh": false, "maxcalls": 0, "reused_solver": true}).to_string());
                            }
                        }
                    }
                }
            }
            let proj2 = afio::projection(&af);
            lines.push(json!({"ev": "frame", "same": proj == proj2}).to_string());
        }
        lines
    });
    util::write_lines(&out, results.into_iter().flatten());
}

pub fn cmd_static(a: &Args) {
    let afs = afio::read_afs(&a.get("afs", ""));
    let sems = a.list("sems", "GR,CO,PR,ST,SST,STG,ID");
    let kinds = a.list("kinds", "SE,DC,DS");
    let certs: Vec<bool> = match a.get("cert", "both").as_str() {
        "yes" => vec![true],
        "no" => vec![false],
        _ => vec![false, true],
    };
    let presents = a.list("present", "compact");
    let enc_mode = a.get("enc", "all");
    let oracle = a.get("oracle", "dfs");
    let budget: usize = a.get("budget", "64").parse().unwrap();
    let lists: usize = a.get("lists", "1").parse().unwrap();
    let seed: u64 = a.get("seed", "1").parse().unwrap();
    let with_cc = a.get("cc", "no") == "yes";
    let fault = a.get("fault", "no") == "yes";
    let failing = a.get("failing", "no") == "yes";
    let with_agree = a.get("agree", "no") == "yes";
    let listsample = a.num("listsample", 0);
    // C16/C17: the exchange with an external solver process fails at one SAT-call position (fakesat failat:K:<submode>)
    let procfault = a.get("procfault", "");
    let fakesat = a.get("fakesat", "");
    let tmpdir = a.get("tmp", "/verif/work/tmp");
    let cap: usize = a.get("cap", "1500").parse().unwrap();
    let maxq: usize = a.get("maxq", "1000000").parse().unwrap();
    let out = a.get("out", "/dev/stdout");
    let threads: usize = a.get("threads", "16").parse().unwrap();
    let backend = a.get("backend", "cadical");

    let jobs: Vec<(usize, AfSpec)> = afs.into_iter().enumerate().collect();
    util::par_map_write(jobs, threads, &out, 256, |(idx, spec)| {
        util::install_quiet_panic_hook();
        let mut lines: Vec<String> = vec![];
        for (pi, present) in presents.iter().enumerate() {
            let pseed = seed.wrapping_mul(1_000_003).wrapping_add((*idx as u64) * 17 + pi as u64);
            let af = afio::build(spec, present, pseed);
            let proj = afio::projection(&af);
            let padded = present == "padded";
            if padded {
                // the judge is given the core framework only (see afio::build_padded)
                let core = |v: &serde_json::Value| -> Vec<serde_json::Value> {
                    v.as_array().unwrap().iter().filter(|x| {
                        if let Some(a) = x.as_array() { a.iter().take(if a.len() == 2 && v == &proj["att"] { 2 } else { 1 }).all(|y| (y.as_u64().unwrap() as usize) <= spec.n) }
                        else { (x.as_u64().unwrap() as usize) <= spec.n }
                    }).cloned().collect()
                };
                lines.push(json!({"ev": "af", "idx": idx, "tag": spec.tag, "present": present, "n": spec.n, "real_n": af.n_arguments(),
                    "args": core(&proj["args"]), "ids": core(&proj["ids"]), "att": core(&proj["att"]), "sems": sems}).to_string());
            } else {
            lines.push(json!({"ev": "af", "idx": idx, "tag": spec.tag, "present": present, "n": spec.n,
                "args": proj["args"], "ids": proj["ids"], "att": proj["att"], "sems": sems}).to_string());
            }
            let labels: Vec<usize> = (1..=spec.n).collect();
            let mut nq = 0usize;
            let exp_too_big = exp_cost(&af) > 200_000.0;
            if exp_too_big {
                lines.push(json!({"ev": "skip", "what": "exp_co encoder not run: its cartesian product exceeds 2e5 clauses for one argument", "cost": exp_cost(&af)}).to_string());
            }
            for sem in &sems {
                if padded && (sem == "SST" || sem == "STG") {
                    continue; // range-based semantics are not directional
                }
                for kind in &kinds {
                    let qargs: Vec<Vec<usize>> = if kind == "SE" { vec![vec![]] } else { sample_lists(arg_lists(&labels, lists), &af, listsample, pseed) };
                    let encs: Vec<&str> = if enc_mode == "all" { encoders_for(sem, kind) } else { vec![encoders_for(sem, kind)[0]] };
                    for qa in &qargs {
                        // C06: the statuses obtained for this query over encoders x certificate flag x explored SAT-model schedules
                        let mut agree_acc: BTreeMap<String, Vec<String>> = BTreeMap::new();
                        let mut agree_n = 0usize;
                        for cert in &certs {
                            if kind == "SE" && *cert { continue; }
                            let mut by_out: BTreeMap<Outcome, (Vec<String>, usize, usize, bool)> = BTreeMap::new();
                            let mut max_calls_seen = 0usize;
                            let mut by_cc: BTreeMap<(String, CcSummary), (Vec<String>, usize)> = BTreeMap::new();
                            for enc in &encs {
                                nq += 1;
                                if nq > maxq { continue; }
                                if exp_too_big && *enc == "exp_co" { continue; }
                                if failing {
                                    // C17: the backend fails at every call (process exit, truncated / garbled reply, ...)
                                    let ctl = Ctl::new(false, vec![]);
                                    ctl.borrow_mut().backend = backend.clone();
                                    let mut o = run_query(&af, sem, kind, qa, *cert, enc, &ctl);
                                    o.faulted = ctl.borrow().n_solve > 0;
                                    lines.push(json!({"ev": "fault", "sem": sem, "kind": kind, "args": qa, "cert": cert,
                                        "enc": enc, "at": 1, "of": ctl.borrow().n_solve, "how": backend, "out": outcome_json(&o)}).to_string());
                                    continue;
                                }
                                if !procfault.is_empty() {
                                    std::fs::create_dir_all(&tmpdir).ok();
                                    let ctr = format!("{}/ctr_{}_{}_{}", tmpdir, std::process::id(), idx, nq);
                                    let ctl0 = Ctl::new(false, vec![]);
                                    ctl0.borrow_mut().backend = format!("ext:{}", fakesat);
                                    let _ = run_query(&af, sem, kind, qa, *cert, enc, &ctl0);
                                    let k = ctl0.borrow().n_solve;
                                    for pos in 1..=k {
                                        let _ = std::fs::remove_file(&ctr);
                                        let ctl = Ctl::new(false, vec![]);
                                        ctl.borrow_mut().backend = format!("ext:{}|--counter|{}|--mode|failat:{}:{}", fakesat, ctr, pos, procfault);
                                        let mut o = run_query(&af, sem, kind, qa, *cert, enc, &ctl);
                                        // the failing call was reached iff the counter got that far
                                        let reached: usize = std::fs::read_to_string(&ctr).ok().and_then(|t| t.trim().parse().ok()).unwrap_or(0);
                                        o.faulted = reached >= pos;
                                        lines.push(json!({"ev": "fault", "sem": sem, "kind": kind, "args": qa, "cert": cert,
                                            "enc": enc, "at": pos, "of": k, "how": format!("process:{}", procfault), "out": outcome_json(&o)}).to_string());
                                    }
                                    let _ = std::fs::remove_file(&ctr);
                                    continue;
                                }
                                if fault {
                                    // C17: fault-free run counts the calls, then one run per fault position
                                    let ctl0 = Ctl::new(false, vec![]);
                                    ctl0.borrow_mut().backend = backend.clone();
                                    let _ = run_query(&af, sem, kind, qa, *cert, enc, &ctl0);
                                    let k = ctl0.borrow().n_solve;
                                    for pos in 1..=k {
                                        let ctl = Ctl::new(false, vec![]);
                                        ctl.borrow_mut().fault_at = Some(pos);
                                        ctl.borrow_mut().backend = backend.clone();
                                        let o = run_query(&af, sem, kind, qa, *cert, enc, &ctl);
                                        lines.push(json!({"ev": "fault", "sem": sem, "kind": kind, "args": qa, "cert": cert,
                                            "enc": enc, "at": pos, "of": k, "out": outcome_json(&o)}).to_string());
                                    }
                                    continue;
                                }
                                // padded frameworks: a search over the admissibility encoding may legitimately add the defended sinks one SAT call
                                // at a time (hundreds of calls on 600 arguments): the "not going to terminate" cap grows with the size
                                let cap_eff = if padded { cap + 8 * af.n_arguments() } else { cap };
                                let ex = explore(budget, oracle == "dfs", cap_eff, &backend, |ctl| {
                                    let mut o = run_query(&af, sem, kind, qa, *cert, enc, ctl);
                                    if padded {
                                        if let Some(e) = o.ext.as_mut() {
                                            e.retain(|p| p.0 <= spec.n);
                                        }
                                    }
                                    o
                                });
                                for (o, mult) in &ex.outcomes {
                                    let ent = by_out.entry(o.clone()).or_insert((vec![], 0, 0, true));
                                    ent.0.push(enc.to_string());
                                    ent.1 += mult;
                                    ent.2 += ex.runs;
                                    ent.3 &= ex.exhaustive;
                                    max_calls_seen = max_calls_seen.max(ex.max_calls);
                                }
                                if with_cc {
                                    for (c, mult) in &ex.ccs {
                                        if c.calls == 0 { continue; }
                                        let ent = by_cc.entry((base_of(enc).to_string(), c.clone())).or_insert((vec![], 0));
                                        ent.0.push(enc.to_string());
                                        ent.1 += mult;
                                    }
                                }
                            }
                            for (o, (encs, mult, _, _)) in &by_out {
                                let st = if o.capped { "capped" } else if o.panic.is_some() { "panic" } else { match o.st { Some(true) => "yes", Some(false) => "no", None => "none" } };
                                agree_acc.entry(st.to_string()).or_default().extend(encs.iter().map(|e| format!("{}/cert={}", e, cert)));
                                agree_n += mult;
                            }
                            for (o, (encs, mult, runs, exh)) in &by_out {
                                lines.push(json!({"ev": "q", "sem": sem, "kind": kind, "args": qa, "cert": cert, "encs": encs,
                                    "oracle": oracle, "backend": backend, "out": outcome_json(o), "mult": mult, "runs": runs, "exh": exh, "maxcalls": max_calls_seen}).to_string());
                            }
                            for ((base, c), (encs, mult)) in &by_cc {
                                lines.push(json!({"ev": "cc", "sem": sem, "kind": kind, "encs": encs, "base": base,
                                    "labels": c.labels, "att": c.att.iter().map(|(x, y)| vec![*x, *y]).collect::<Vec<_>>(),
                                    "range": c.range, "calls": c.calls, "nsat": c.nsat, "returned": c.returned, "decoded": c.decoded, "instances": c.instances,
                                    "mult": mult}).to_string());
                            }
                        }
                        if with_agree && kind != "SE" && !agree_acc.is_empty() {
                            let distinct: Vec<&String> = agree_acc.keys().collect();
                            let detail: Vec<String> = if distinct.len() > 1 { agree_acc.iter().map(|(k, v)| format!("{}: {}", k, v.join(","))).collect() } else { vec![] };
                            lines.push(json!({"ev": "agree", "sem": sem, "kind": kind, "args": qa, "statuses": distinct, "n": agree_n, "detail": detail}).to_string());
                        }
                    }
                }
            }
            // querying never modifies the framework
            let proj2 = afio::projection(&af);
            lines.push(json!({"ev": "frame", "same": proj == proj2}).to_string());
        }
        lines
    });
}
