//! Framework descriptions (labels 1..n) and their concrete presentations.
use crustabri::aa::{AAFramework, ArgumentSet};
use crustabri::io::{Iccma23Reader, InstanceReader};
use rand::rngs::StdRng;
use rand::seq::SliceRandom;
use rand::{Rng, SeedableRng};
use serde_json::{json, Value};

#[derive(Clone, Debug)]
pub struct AfSpec {
    pub n: usize,
    pub att: Vec<(usize, usize)>,
    pub tag: String,
}

pub fn read_afs(path: &str) -> Vec<AfSpec> {
    let txt = std::fs::read_to_string(path).expect("cannot read AF file");
    txt.lines()
        .filter(|l| !l.trim().is_empty())
        .map(|l| {
            let v: Value = serde_json::from_str(l).expect("bad AF line");
            let n = v["n"].as_u64().unwrap() as usize;
            let att = v["att"]
                .as_array()
                .unwrap()
                .iter()
                .map(|p| (p[0].as_u64().unwrap() as usize, p[1].as_u64().unwrap() as usize))
                .collect();
            let tag = v["tag"].as_str().unwrap_or("").to_string();
            AfSpec { n, att, tag }
        })
        .collect()
}

/// compact: labels 1..n inserted in order, attacks by label in the listed order.
pub fn build_compact(s: &AfSpec) -> AAFramework<usize> {
    let labels: Vec<usize> = (1..=s.n).collect();
    let mut af = AAFramework::new_with_argument_set(ArgumentSet::new_with_labels(&labels));
    for (a, b) in &s.att {
        af.new_attack(a, b).unwrap();
    }
    af
}

/// sparse: built through an update history with dummy arguments and attacks that are removed again, so
/// that ids have holes, ids are not ordered like labels, and the attack vector holds tombstones.
pub fn build_sparse(s: &AfSpec, seed: u64) -> AAFramework<usize> {
    let mut rng = StdRng::seed_from_u64(seed);
    let mut af: AAFramework<usize> = AAFramework::default();
    let mut order: Vec<usize> = (1..=s.n).collect();
    order.shuffle(&mut rng);
    let mut dummies = vec![];
    let mut next_dummy = 1000;
    // always start with a dummy so that id 0 is a hole
    af.new_argument(next_dummy);
    dummies.push(next_dummy);
    next_dummy += 1;
    for l in &order {
        af.new_argument(*l);
        if rng.gen_bool(0.5) {
            af.new_argument(next_dummy);
            dummies.push(next_dummy);
            next_dummy += 1;
        }
    }
    let mut atts = s.att.clone();
    atts.shuffle(&mut rng);
    let present: Vec<usize> = order.clone();
    for (a, b) in &atts {
        af.new_attack(a, b).unwrap();
        // noise: attacks involving dummies
        if rng.gen_bool(0.5) {
            let d = dummies[rng.gen_range(0..dummies.len())];
            let x = present[rng.gen_range(0..present.len())];
            if rng.gen_bool(0.5) {
                af.new_attack(&d, &x).unwrap();
            } else {
                af.new_attack(&x, &d).unwrap();
            }
        }
    }
    // noise: attacks between real arguments that are added then removed again
    if s.n > 0 {
        for _ in 0..rng.gen_range(0..3) {
            let x = present[rng.gen_range(0..present.len())];
            let y = present[rng.gen_range(0..present.len())];
            if !s.att.contains(&(x, y)) {
                af.new_attack(&x, &y).unwrap();
                af.remove_attack(&x, &y).unwrap();
            }
        }
    }
    dummies.shuffle(&mut rng);
    for d in &dummies {
        af.remove_argument(d).unwrap();
    }
    af
}

/// dup: ICCMA'23 text with permuted and duplicated attack lines, read by the real reader
pub fn iccma_text(s: &AfSpec, seed: u64, dup: bool) -> String {
    let mut rng = StdRng::seed_from_u64(seed);
    let mut lines: Vec<(usize, usize)> = s.att.clone();
    if dup {
        for p in &s.att {
            if rng.gen_bool(0.4) {
                lines.push(*p);
            }
        }
        lines.shuffle(&mut rng);
    }
    let mut t = format!("p af {}\n", s.n);
    for (a, b) in lines {
        t.push_str(&format!("{} {}\n", a, b));
    }
    t
}

pub fn build_dup(s: &AfSpec, seed: u64) -> AAFramework<usize> {
    let t = iccma_text(s, seed, true);
    Iccma23Reader::default().read(&mut t.as_bytes()).unwrap()
}

/// padded: the framework plus 35-70 "sink" arguments (labels n+1..) that are only attacked, by arguments of the framework, inside
/// its components.  By directionality (theorem SinkDirectionality of MCDung) the extensions restricted to the original arguments
/// and the statuses of the original arguments are those of the original framework for GR, CO, PR, ID, ST -- so the judge can keep
/// using the small framework while the code works on components of 40-80 arguments (table sizes, bit sets, thresholds).
pub fn build_padded(s: &AfSpec, seed: u64) -> AAFramework<usize> {
    let mut rng = StdRng::seed_from_u64(seed ^ 0x9ad);
    // placement of the core among the sinks: 0 = core first (ids 0..n-1) then 35-70 sinks; 1 / 2 = the core arguments are spread with a
    // stride of 64 / 32 ids (core ids congruent modulo the stride: bit-set words, hash signatures, table blocks), sinks in between
    let mode = if s.n == 0 { 0 } else { seed % 3 };
    let (labels, k): (Vec<usize>, usize) = if mode == 0 {
        let k = rng.gen_range(35..=70);
        ((1..=s.n + k).collect(), k)
    } else {
        let stride = if mode == 1 { 64 } else { 32 };
        let c = rng.gen_range(0..stride);
        let total = c + stride * (s.n - 1) + 1 + rng.gen_range(0..stride);
        let k = total - s.n;
        let mut labels = vec![0usize; total];
        for i in 1..=s.n {
            labels[c + stride * (i - 1)] = i;
        }
        let mut next = s.n + 1;
        for l in labels.iter_mut() {
            if *l == 0 {
                *l = next;
                next += 1;
            }
        }
        (labels, k)
    };
    let mut af = AAFramework::new_with_argument_set(ArgumentSet::new_with_labels(&labels));
    let mut atts = s.att.clone();
    if s.n > 0 {
        for j in 1..=k {
            for _ in 0..rng.gen_range(1..=2) {
                atts.push((rng.gen_range(1..=s.n), s.n + j));
            }
        }
    }
    atts.shuffle(&mut rng);
    for (a, b) in &atts {
        af.new_attack(a, b).unwrap();
    }
    af
}

pub fn build(s: &AfSpec, present: &str, seed: u64) -> AAFramework<usize> {
    match present {
        "padded" => build_padded(s, seed),
        "compact" => build_compact(s),
        "sparse" => build_sparse(s, seed),
        "dup" => build_dup(s, seed),
        _ => panic!("unknown presentation {}", present),
    }
}

/// the public projection of a framework, as JSON (labels are the integers themselves)
pub fn projection(af: &AAFramework<usize>) -> Value {
    let args: Vec<usize> = af.argument_set().iter().map(|a| *a.label()).collect();
    let ids: Vec<Vec<usize>> = af
        .argument_set()
        .iter()
        .map(|a| vec![*a.label(), a.id()])
        .collect();
    let mut att: Vec<Vec<usize>> = af
        .iter_attacks()
        .map(|a| vec![*a.attacker().label(), *a.attacked().label()])
        .collect();
    let natt_raw = att.len();
    att.sort();
    att.dedup();
    json!({"args": args, "ids": ids, "att": att, "nargs": af.n_arguments(), "natt": af.n_attacks(), "natt_iter": natt_raw})
}
