//! C11: presentation invariance, locality to components and cross-semantics consistency on frameworks far beyond
//! exhaustive reference computation (20-300 arguments): pairs of runs on a framework and its transforms.
use crate::afio::{self, AfSpec};
use crate::obs::Ctl;
use crate::stat::run_query;
use crate::util::{self, Args};
use crustabri::aa::AAFramework;
use rand::rngs::StdRng;
use rand::seq::SliceRandom;
use rand::{Rng, SeedableRng};
use serde_json::{json, Value};

fn sems_for(n: usize) -> Vec<&'static str> {
    let mut v = vec!["GR", "CO", "ST"];
    if n <= 120 {
        v.push("PR");
    }
    if n <= 50 {
        v.extend(["SST", "STG", "ID"]);
    }
    v
}

/// the encoder for this (semantics, query kind) under encoder choice `c` (0 = auxiliary variables, 1 = exponential, 2 = hybrid where the
/// semantics has that choice); the exponential one is not used on presentations where it needs more than 2*10^5 clauses for one argument
fn enc_choice(af: &AAFramework<usize>, sem: &str, kind: &str, c: usize) -> &'static str {
    let v = crate::stat::encoders_for(sem, kind);
    let e = v[c % v.len()];
    if e.starts_with("exp") && crate::stat::exp_cost(af) > 200_000.0 { v[0] } else { e }
}

fn statuses(af: &AAFramework<usize>, sem: &str, kind: &str, args: &[usize], c: usize) -> Vec<String> {
    args.iter()
        .map(|a| {
            let ctl = Ctl::new(false, vec![]);
            ctl.borrow_mut().keep_clauses = false;
            let enc = enc_choice(af, sem, kind, c);
            let o = run_query(af, sem, kind, &[*a], false, enc, &ctl);
            match (o.st, o.panic) {
                (Some(true), _) => "yes".to_string(),
                (Some(false), _) => "no".to_string(),
                _ => "panic".to_string(),
            }
        })
        .collect()
}

fn one_ext(af: &AAFramework<usize>, sem: &str, c: usize) -> (bool, Vec<usize>, bool) {
    let ctl = Ctl::new(false, vec![]);
    ctl.borrow_mut().keep_clauses = false;
    let enc = enc_choice(af, sem, "SE", c);
    let o = run_query(af, sem, "SE", &[], false, enc, &ctl);
    match o.ext {
        Some(e) => (true, e.iter().map(|p| p.0).collect(), o.panic.is_some()),
        None => (false, vec![], o.panic.is_some()),
    }
}

pub fn cmd_meta(a: &Args) {
    util::install_quiet_panic_hook();
    let afs = afio::read_afs(&a.get("afs", ""));
    let out = a.get("out", "/dev/stdout");
    let threads = a.num("threads", 16);
    let seed = a.num("seed", 1) as u64;
    let nsample = a.num("sample", 6);
    let jobs: Vec<(usize, AfSpec)> = afs.into_iter().enumerate().collect();
    let res = util::par_map(jobs, threads, |(idx, spec)| {
        util::install_quiet_panic_hook();
        let mut rng = StdRng::seed_from_u64(seed.wrapping_mul(7907).wrapping_add(*idx as u64));
        let n = spec.n;
        let mut lines: Vec<String> = vec![];
        let base = afio::build_compact(spec);
        let mut sample: Vec<usize> = (1..=n).collect();
        sample.shuffle(&mut rng);
        sample.truncate(nsample.min(n));
        let sems = sems_for(n);
        lines.push(json!({"ev": "reset", "idx": idx, "tag": spec.tag, "n": n, "natt": spec.att.len()}).to_string());
        // transforms
        let mut perm: Vec<usize> = (1..=n).collect();
        perm.shuffle(&mut rng);
        let p_spec = AfSpec { n, att: spec.att.iter().map(|(x, y)| (perm[x - 1], perm[y - 1])).collect(), tag: "perm".into() };
        let mut p_att = p_spec.att.clone();
        p_att.shuffle(&mut rng);
        let p_spec = AfSpec { att: p_att, ..p_spec };
        let p_af = afio::build_compact(&p_spec);
        let p_sample: Vec<usize> = sample.iter().map(|x| perm[x - 1]).collect();
        let d_af = afio::build_dup(spec, seed ^ (*idx as u64));
        let with_st = if rng.gen_bool(0.5) { vec![(n + 1, n + 2), (n + 2, n + 1)] } else { vec![(n + 1, n + 2)] };
        let mut u_att = spec.att.clone();
        u_att.extend(with_st);
        let u_af = afio::build_compact(&AfSpec { n: n + 2, att: u_att, tag: "union_st".into() });
        let without_st = if rng.gen_bool(0.5) { vec![(n + 1, n + 1)] } else { vec![(n + 1, n + 2), (n + 2, n + 3), (n + 3, n + 1)] };
        let extra = if without_st.len() == 1 { 1 } else { 3 };
        let mut w_att = spec.att.clone();
        w_att.extend(without_st);
        let w_af = afio::build_compact(&AfSpec { n: n + extra, att: w_att, tag: "union_nost".into() });
        // padding with sinks: 35-70 new arguments that are only attacked (by arguments of the instance), inside the same components.
        // By directionality the statuses of the original arguments are unchanged for GR, CO, PR, ID, ST -- while the components grow
        // beyond 32 / 64 arguments (table sizes, bit sets, thresholds of the implementation)
        let k = if n >= 2 && n <= 16 { rng.gen_range(35..=70) } else { 0 };
        let mut s_att = spec.att.clone();
        for j in 1..=k {
            for _ in 0..rng.gen_range(1..=2) {
                s_att.push((rng.gen_range(1..=n), n + j));
            }
        }
        s_att.sort();
        s_att.dedup();
        let s_af = afio::build_compact(&AfSpec { n: n + k, att: s_att, tag: "pad_sinks".into() });
        // encoder choices: all three on frameworks of at most 16 arguments, one (in rotation) beyond; both runs of a pair use the same one
        let choices: Vec<usize> = if n <= 16 { vec![0, 1, 2] } else { vec![idx % 3] };
        for (ci, c) in choices.iter().enumerate() {
        let c = *c;
        let mut per_sem: Vec<Value> = vec![];
        for sem in &sems {
            if ci > 0 && crate::stat::encoders_for(sem, "DC").len() == 1 && crate::stat::encoders_for(sem, "DS").len() == 1 {
                continue; // no encoder to choose for this semantics: already run
            }
            for kind in ["DC", "DS"] {
                let b = statuses(&base, sem, kind, &sample, c);
                for (rel, af2, s2) in [("perm", &p_af, &p_sample), ("attdup", &d_af, &sample), ("union_st", &u_af, &sample), ("union_nost", &w_af, &sample)] {
                    let o = statuses(af2, sem, kind, s2, c);
                    lines.push(json!({"ev": "pair", "rel": rel, "sem": sem, "kind": kind, "args": sample, "base": b, "other": o}).to_string());
                }
                if k > 0 && ["GR", "CO", "PR", "ID", "ST"].contains(sem) {
                    let o = statuses(&s_af, sem, kind, &sample, c);
                    lines.push(json!({"ev": "pair", "rel": "pad_sinks", "sem": sem, "kind": kind, "args": sample, "base": b, "other": o}).to_string());
                }
                per_sem.push(json!({"sem": sem, "kind": kind, "st": b}));
            }
        }
        // cross-semantics consistency and polynomial necessary conditions on the returned sets
        if ci > 0 {
            // the statuses of the semantics without an encoder choice are those of the first round
            for sem in &sems {
                if crate::stat::encoders_for(sem, "DC").len() == 1 && crate::stat::encoders_for(sem, "DS").len() == 1 {
                    for kind in ["DC", "DS"] {
                        per_sem.push(json!({"sem": sem, "kind": kind, "st": statuses(&base, sem, kind, &sample, 0)}));
                    }
                }
            }
        }
        let gr = one_ext(&base, "GR", c);
        let st = one_ext(&base, "ST", c);
        let pr = if n <= 120 { one_ext(&base, "PR", c) } else { (false, vec![], false) };
        let id = if n <= 50 { one_ext(&base, "ID", c) } else { (false, vec![], false) };
        let sst = if n <= 50 { one_ext(&base, "SST", c) } else { (false, vec![], false) };
        let stg = if n <= 50 { one_ext(&base, "STG", c) } else { (false, vec![], false) };
        let att: Vec<Vec<usize>> = spec.att.iter().map(|(x, y)| vec![*x, *y]).collect();
        lines.push(json!({"ev": "cross", "n": n, "att": att, "args": sample, "statuses": per_sem,
            "gr": gr.1, "has_st": st.0, "st": st.1, "has_pr": pr.0, "pr": pr.1, "has_id": id.0, "id": id.1,
            "has_sst": sst.0, "sst": sst.1, "has_stg": stg.0, "stg": stg.1,
            "panic": gr.2 || st.2 || pr.2 || id.2 || sst.2 || stg.2, "enc_choice": c}).to_string());
        }
        lines
    });
    util::write_lines(&out, res.into_iter().flatten());
}
