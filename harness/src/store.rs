//! C12: the framework store.  Replays specification histories (one per distinct state of Store.tla, exported
//! by MCStore) edge by edge into the real AAFramework, and records long seeded random histories; every event
//! carries the complete public projection.
use crate::util::{self, Args};
use crustabri::aa::AAFramework;
use crustabri::utils::LabelType;
use rand::rngs::StdRng;
use rand::{Rng, SeedableRng};
use serde_json::{json, Value};
use std::panic::{catch_unwind, AssertUnwindSafe};

#[derive(Clone, Debug)]
pub struct Op {
    pub op: String,
    pub a: usize,
    pub b: usize,
}

pub fn op_json(o: &Op) -> Value {
    json!({"op": o.op, "a": o.a, "b": o.b})
}

pub fn apply<T: LabelType>(af: &mut AAFramework<T>, o: &Op, mk: &dyn Fn(usize) -> T) -> &'static str {
    let r = catch_unwind(AssertUnwindSafe(|| match o.op.as_str() {
        "newarg" => {
            af.new_argument(mk(o.a));
            true
        }
        "rmarg" => af.remove_argument(&mk(o.a)).is_ok(),
        "newatt" => af.new_attack(&mk(o.a), &mk(o.b)).is_ok(),
        "rmatt" => af.remove_attack(&mk(o.a), &mk(o.b)).is_ok(),
        _ => panic!("bad op"),
    }));
    match r {
        Ok(true) => "ok",
        Ok(false) => "err",
        Err(_) => "panic",
    }
}

const NOID: usize = 999999;

/// complete public projection, in ids; `universe` = labels to probe with get_argument, `nids` = ids to probe
pub fn proj<T: LabelType>(af: &AAFramework<T>, universe: &[usize], nids: usize, mk: &dyn Fn(usize) -> T, un: &dyn Fn(&T) -> usize) -> Value {
    let r = catch_unwind(AssertUnwindSafe(|| {
        let args: Vec<Vec<usize>> = af.argument_set().iter().map(|a| vec![un(a.label()), a.id()]).collect();
        let has: Vec<bool> = (0..=nids).map(|i| af.argument_set().has_argument_with_id(i)).collect();
        let get: Vec<Vec<usize>> = universe
            .iter()
            .map(|l| vec![*l, af.argument_set().get_argument(&mk(*l)).map(|a| a.id()).unwrap_or(NOID)])
            .collect();
        let atts: Vec<Vec<usize>> = af.iter_attacks().map(|a| vec![a.attacker().id(), a.attacked().id()]).collect();
        let mut from = vec![];
        let mut to = vec![];
        for a in af.argument_set().iter() {
            let f: Vec<Vec<usize>> = af.iter_attacks_from(a).map(|x| vec![x.attacker().id(), x.attacked().id()]).collect();
            let t: Vec<Vec<usize>> = af.iter_attacks_to(a).map(|x| vec![x.attacker().id(), x.attacked().id()]).collect();
            from.push(json!({"id": a.id(), "l": f}));
            to.push(json!({"id": a.id(), "l": t}));
        }
        // by-id access must agree with iteration
        let byid_ok = af.argument_set().iter().all(|a| {
            let b = af.argument_set().get_argument_by_id(a.id());
            b.id() == a.id() && b.label() == a.label()
        });
        json!({"nargs": af.n_arguments(), "len": af.argument_set().len(), "empty": af.argument_set().is_empty(),
               "args": args, "has": has, "get": get, "natt": af.n_attacks(), "atts": atts, "from": from, "to": to,
               "byid": byid_ok, "panic": false})
    }));
    match r {
        Ok(v) => v,
        Err(_) => json!({"nargs": 0, "len": 0, "empty": true, "args": [], "has": [], "get": [], "natt": 0, "atts": [], "from": [], "to": [],
                         "byid": false, "panic": true}),
    }
}

fn parse_ops(v: &Value) -> Vec<Op> {
    v.as_array()
        .unwrap()
        .iter()
        .map(|o| Op { op: o["op"].as_str().unwrap().to_string(), a: o["a"].as_u64().unwrap() as usize, b: o["b"].as_u64().unwrap() as usize })
        .collect()
}

fn all_ops(universe: &[usize]) -> Vec<Op> {
    let mut v = vec![];
    for l in universe {
        v.push(Op { op: "newarg".into(), a: *l, b: *l });
        v.push(Op { op: "rmarg".into(), a: *l, b: *l });
    }
    for f in universe {
        for t in universe {
            v.push(Op { op: "newatt".into(), a: *f, b: *t });
            v.push(Op { op: "rmatt".into(), a: *f, b: *t });
        }
    }
    v
}

fn replay_state<T: LabelType + Default>(hist: &[Op], universe: &[usize], mk: &dyn Fn(usize) -> T, un: &dyn Fn(&T) -> usize, ty: &str) -> Vec<String> {
    let mut lines = vec![json!({"ev": "reset", "init": [], "ty": ty}).to_string()];
    let nids = hist.iter().filter(|o| o.op == "newarg").count();
    let mut af: AAFramework<T> = AAFramework::default();
    for o in hist {
        let res = apply(&mut af, o, mk);
        lines.push(json!({"ev": "u", "o": op_json(o), "res": res, "proj": proj(&af, universe, nids + 1, mk, un)}).to_string());
    }
    // every outgoing edge of this state: rebuild, apply, project
    for o in all_ops(universe) {
        let mut af2: AAFramework<T> = AAFramework::default();
        for h in hist {
            apply(&mut af2, h, mk);
        }
        let res = apply(&mut af2, &o, mk);
        lines.push(json!({"ev": "probe", "o": op_json(&o), "res": res, "proj": proj(&af2, universe, nids + 2, mk, un)}).to_string());
    }
    lines
}

fn random_walk<T: LabelType + Default + 'static>(seed: u64, nlabels: usize, len: usize, with_init: bool, mk: &dyn Fn(usize) -> T, un: &dyn Fn(&T) -> usize, ty: &str, rt: bool) -> Vec<String> {
    let mut rng = StdRng::seed_from_u64(seed);
    let universe: Vec<usize> = (1..=nlabels).collect();
    let mut init: Vec<usize> = vec![];
    if with_init {
        for _ in 0..rng.gen_range(0..=nlabels) {
            init.push(universe[rng.gen_range(0..nlabels)]); // duplicates on purpose
        }
    }
    let labels: Vec<T> = init.iter().map(|l| mk(*l)).collect();
    let mut af: AAFramework<T> = if with_init {
        AAFramework::new_with_argument_set(crustabri::aa::ArgumentSet::new_with_labels(&labels))
    } else {
        AAFramework::default()
    };
    let mut nids = init.len();
    let mut lines = vec![json!({"ev": "reset", "init": init, "ty": ty}).to_string()];
    let p_rm_arg = [0.05, 0.1, 0.2][rng.gen_range(0..3)];
    for _ in 0..len {
        let x: f64 = rng.gen();
        let a = universe[rng.gen_range(0..nlabels)];
        let b = if rng.gen_bool(0.15) { a } else { universe[rng.gen_range(0..nlabels)] };
        let o = if x < 0.15 {
            Op { op: "newarg".into(), a, b: a }
        } else if x < 0.15 + p_rm_arg {
            Op { op: "rmarg".into(), a, b: a }
        } else if x < 0.7 {
            Op { op: "newatt".into(), a, b }
        } else {
            Op { op: "rmatt".into(), a, b }
        };
        if o.op == "newarg" {
            nids += 1;
        }
        let res = apply(&mut af, &o, mk);
        lines.push(json!({"ev": "u", "o": op_json(&o), "res": res, "proj": proj(&af, &universe, nids + 1, mk, un)}).to_string());
        if rt && rng.gen_bool(0.15) {
            // C14: written in Aspartix format and read back
            if let Some(saf) = (&af as &dyn std::any::Any).downcast_ref::<AAFramework<String>>() {
                lines.push(json!({"ev": "rt", "back": crate::io::roundtrip(saf)}).to_string());
            }
        }
    }
    lines
}

/// wide histories: 36-48 labels, hubs with dozens of outgoing / incoming attacks, many removals; the projection is logged every
/// 12 steps (events "x" in between only carry the operation, the judge steps its model on them)
fn wide_walk(seed: u64, len: usize) -> Vec<String> {
    let mut rng = StdRng::seed_from_u64(seed);
    // one walk in three is really wide (hubs with in- and out-degrees of 50-150), the others have 36-48 labels
    let big = seed % 3 == 0;
    let nl = if big { rng.gen_range(70..=160) } else { rng.gen_range(36..=48) };
    let len = if big { len * 3 } else { len };
    let universe: Vec<usize> = (1..=nl).collect();
    let mk = |x: usize| x;
    let un = |x: &usize| *x;
    let mut af: AAFramework<usize> = AAFramework::default();
    let mut lines = vec![json!({"ev": "reset", "init": [], "ty": "usize-wide"}).to_string()];
    let mut nids = 0usize;
    let hubs: Vec<usize> = (0..3).map(|_| rng.gen_range(1..=nl)).collect();
    let mut step = 0usize;
    let mut emit = |af: &mut AAFramework<usize>, o: Op, nids: &mut usize, lines: &mut Vec<String>, force: bool| {
        if o.op == "newarg" {
            *nids += 1;
        }
        let res = apply(af, &o, &mk);
        step += 1;
        if force || step % 12 == 0 {
            lines.push(json!({"ev": "u", "o": op_json(&o), "res": res, "proj": proj(af, &universe, *nids + 1, &mk, &un)}).to_string());
        } else {
            lines.push(json!({"ev": "x", "o": op_json(&o), "res": res}).to_string());
        }
    };
    for l in 1..=nl {
        emit(&mut af, Op { op: "newarg".into(), a: l, b: l }, &mut nids, &mut lines, false);
    }
    for _ in 0..len {
        let h = hubs[rng.gen_range(0..hubs.len())];
        let y = universe[rng.gen_range(0..nl)];
        let x: f64 = rng.gen();
        let o = if x < 0.27 {
            Op { op: "newatt".into(), a: h, b: y }
        } else if x < 0.50 {
            Op { op: "newatt".into(), a: y, b: h }
        } else if x < 0.58 {
            Op { op: "rmatt".into(), a: h, b: y }
        } else if x < 0.65 {
            Op { op: "rmatt".into(), a: y, b: h }
        } else if x < 0.72 {
            Op { op: "rmarg".into(), a: y, b: y }
        } else if x < 0.82 {
            Op { op: "newarg".into(), a: y, b: y }
        } else if x < 0.92 {
            Op { op: "newatt".into(), a: y, b: universe[rng.gen_range(0..nl)] }
        } else {
            Op { op: "rmatt".into(), a: y, b: universe[rng.gen_range(0..nl)] }
        };
        emit(&mut af, o, &mut nids, &mut lines, false);
    }
    // a last full projection
    emit(&mut af, Op { op: "rmatt".into(), a: 1, b: 1 }, &mut nids, &mut lines, true);
    lines
}

pub fn cmd_store(a: &Args) {
    util::install_quiet_panic_hook();
    let out = a.get("out", "/dev/stdout");
    let threads = a.num("threads", 16);
    let seed = a.num("seed", 1) as u64;
    let mk_u = |x: usize| x;
    let un_u = |x: &usize| *x;
    let rt = a.get("rt", "no") == "yes";
    let mk_s = |x: usize| format!("a{}", x);
    let un_s = |x: &String| x[1..].parse::<usize>().unwrap();
    let mut all: Vec<String> = vec![];
    let hfile = a.get("hists", "");
    if !hfile.is_empty() {
        let nl = a.num("labels", 3);
        let universe: Vec<usize> = (1..=nl).collect();
        let txt = std::fs::read_to_string(&hfile).unwrap();
        let hists: Vec<Vec<Op>> = txt.lines().filter(|l| !l.trim().is_empty()).map(|l| {
            let v: Value = serde_json::from_str(l).unwrap();
            parse_ops(&v["hist"])
        }).collect();
        let jobs: Vec<(usize, Vec<Op>)> = hists.into_iter().enumerate().collect();
        let res = util::par_map(jobs, threads, |(i, h)| {
            util::install_quiet_panic_hook();
            if i % 2 == 0 { replay_state::<usize>(h, &universe, &mk_u, &un_u, "usize") } else { replay_state::<String>(h, &universe, &mk_s, &un_s, "string") }
        });
        all.extend(res.into_iter().flatten());
    }
    let walks = a.num("walks", 0);
    if walks > 0 {
        let len = a.num("len", 500);
        let jobs: Vec<usize> = (0..walks).collect();
        let res = util::par_map(jobs, threads, |i| {
            util::install_quiet_panic_hook();
            let s = seed.wrapping_mul(7919).wrapping_add(*i as u64);
            let nl = 3 + (*i % 4);
            if i % 2 == 0 { random_walk::<usize>(s, nl, len, i % 4 == 0, &mk_u, &un_u, "usize", false) } else { random_walk::<String>(s, nl, len, i % 4 == 1, &mk_s, &un_s, "string", rt) }
        });
        all.extend(res.into_iter().flatten());
    }
    let wide = a.num("wide", 0);
    if wide > 0 {
        let len = a.num("widelen", 600);
        let jobs: Vec<usize> = (0..wide).collect();
        let res = util::par_map(jobs, threads, |i| {
            util::install_quiet_panic_hook();
            wide_walk(seed.wrapping_mul(104729).wrapping_add(*i as u64), len)
        });
        all.extend(res.into_iter().flatten());
    }
    util::write_lines(&out, all.into_iter());
}
