//! C19: the equivalence reduction.
use crate::afio;
use crate::util::{self, Args};
use crustabri::utils::EquivalencyComputer;
use serde_json::json;
use std::panic::{catch_unwind, AssertUnwindSafe};

pub fn cmd_equiv(a: &Args) {
    util::install_quiet_panic_hook();
    let afs = afio::read_afs(&a.get("afs", ""));
    let out = a.get("out", "/dev/stdout");
    let threads = a.num("threads", 16);
    let jobs: Vec<(usize, afio::AfSpec)> = afs.into_iter().enumerate().collect();
    let res = util::par_map(jobs, threads, |(idx, spec)| {
        util::install_quiet_panic_hook();
        // compact ids, as produced by the readers (dup = through the ICCMA reader with duplicated attack lines)
        let pad = spec.tag.ends_with("#pad");
        let af = if pad { afio::build_padded(spec, *idx as u64 + 5) } else if idx % 3 == 2 { afio::build_dup(spec, *idx as u64) } else { afio::build_compact(spec) };
        let core_n = if pad { spec.n } else { 0 };
        // "#big": frameworks of hundreds of arguments judged through the grounded reduct
        let big = spec.tag.ends_with("#big");
        let proj = afio::projection(&af);
        let r = catch_unwind(AssertUnwindSafe(|| {
            let ec = EquivalencyComputer::new(&af);
            let red = ec.reduced_af();
            let classes: Vec<Vec<usize>> = red.argument_set().iter().map(|r| ec.reduced_arg_to_init_args(r).iter().map(|x| *x.label()).collect()).collect();
            let rlabels: Vec<usize> = red.argument_set().iter().map(|r| *r.label()).collect();
            let to_reduced: Vec<Vec<usize>> = af.argument_set().iter().map(|x| vec![*x.label(), ec.init_to_reduced_arg(x).id() + 1]).collect();
            let ratt: Vec<Vec<usize>> = red.iter_attacks().map(|t| vec![t.attacker().id() + 1, t.attacked().id() + 1]).collect();
            json!({"classes": classes, "rlabels": rlabels, "to_reduced": to_reduced, "ratt": ratt, "rn": red.n_arguments()})
        }));
        let mut ev = match r {
            Ok(v) => json!({"ev": "equiv", "idx": idx, "tag": spec.tag, "args": proj["args"], "att": proj["att"], "core_n": core_n, "panic": false,
                "classes": v["classes"], "rlabels": v["rlabels"], "to_reduced": v["to_reduced"], "ratt": v["ratt"], "rn": v["rn"]}),
            Err(_) => json!({"ev": "equiv", "idx": idx, "tag": spec.tag, "args": proj["args"], "att": proj["att"], "core_n": core_n, "panic": true,
                "classes": [], "rlabels": [], "to_reduced": [], "ratt": [], "rn": 0}),
        };
        if big {
            ev["big"] = json!(true);
        }
        ev.to_string()
    });
    let mut lines = vec![json!({"ev": "reset"}).to_string()];
    lines.extend(res);
    // large frameworks (thousands of arguments: a grounded part plus many even cycles): the bookkeeping part of C19 -- the classes
    // partition the arguments and the two mappings are total and inverse -- is checked here on the real result (the complete
    // extensions of such frameworks are out of reach); TLC judges the verdict fields
    let nbig = a.num("big", 0);
    for i in 0..nbig {
        // the last one has more than 65 536 classes (33 000 independent even cycles: two classes each)
        let n_cycles = if i + 1 == nbig { 33_000 + 100 * (i % 3) } else { 1500 + 700 * (i % 4) };
        let mut att: Vec<(usize, usize)> = vec![(1, 2), (2, 3)];
        let mut nxt = 4;
        for _ in 0..n_cycles {
            att.push((nxt, nxt + 1));
            att.push((nxt + 1, nxt));
            nxt += 2;
        }
        if i % 2 == 1 {
            att.push((3, 4));
        }
        let spec = afio::AfSpec { n: nxt - 1, att, tag: "bigcycles".into() };
        let af = afio::build_compact(&spec);
        let r = catch_unwind(AssertUnwindSafe(|| {
            let ec = EquivalencyComputer::new(&af);
            let red = ec.reduced_af();
            let mut seen = vec![0usize; af.n_arguments()];
            let mut inverse_ok = true;
            for rarg in red.argument_set().iter() {
                for x in ec.reduced_arg_to_init_args(rarg) {
                    seen[x.id()] += 1;
                    if ec.init_to_reduced_arg(x).id() != rarg.id() {
                        inverse_ok = false;
                    }
                }
            }
            let partition_ok = seen.iter().all(|c| *c == 1);
            let total_ok = af.argument_set().iter().all(|x| {
                let r = ec.init_to_reduced_arg(x);
                ec.reduced_arg_to_init_args(r).iter().any(|y| y.id() == x.id())
            });
            (partition_ok, inverse_ok, total_ok, red.n_arguments())
        }));
        let (res, p_ok, i_ok, t_ok, rn) = match r {
            Ok(t) => ("ok", t.0, t.1, t.2, t.3),
            Err(_) => ("panic", false, false, false, 0),
        };
        lines.push(json!({"ev": "equivbig", "n": spec.n, "res": res, "partition_ok": p_ok, "inverse_ok": i_ok, "total_ok": t_ok, "rn": rn}).to_string());
    }
    util::write_lines(&out, lines.into_iter());
}
