#!/bin/sh
# seedtest.sh <seed-dir> <check-id> [tier]: apply a seeded change to /repo, run one check, undo the change (also when interrupted).
d=$1; id=$2; tier=${3:-quick}
cd /repo || exit 2
git diff --quiet || { echo "repo dirty"; exit 2; }
# the evidence file of the check is saved and restored: committed evidence must come from runs on the unchanged tree
cp /verif/evidence/$id.json /verif/work/evidence_$id.saved 2>/dev/null
trap 'cd /repo && git checkout -- . ; rm -f /verif/work/seedtest_$$.log; [ -f /verif/work/evidence_'$id'.saved ] && mv /verif/work/evidence_'$id'.saved /verif/evidence/'$id'.json' EXIT INT TERM
git apply "$d/patch.diff" || { echo "patch does not apply"; exit 2; }
cd /verif && timeout ${SEEDTEST_TIMEOUT:-1500} bin/check "$id" --tier "$tier" > /verif/work/seedtest_$$.log 2>&1
rc=$?
cd /repo && git checkout -- .
grep -E "VIOLATION|KNOWN-FINDING|TOOL-ERROR|quick:|thorough:" /verif/work/seedtest_$$.log | cut -c1-300 | head -8
echo "seed=$(basename $d) check=$id rc=$rc"
