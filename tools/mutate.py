#!/usr/bin/env python3
"""mutate.py -- automatic mutation campaign against the checks (development tool, not a registered check).

Works entirely in a scratch copy (default /tmp/mut: repo/ = clone of /repo, verif/ = copy of /verif) so that neither /repo nor /verif is
touched.  For each mutant: one small syntactic change in a source file of crustabri; it must compile and pass the existing test suite
(otherwise it is recorded as killed by the tests and skipped); then the quick checks mapped to that file are run with VERIF_REPO pointing
at the scratch repository.  Results: one JSON line per mutant in <scratch>/results.jsonl.
usage: mutate.py <seed> <count> [scratch-dir]"""
import json, os, random, re, subprocess, sys, time

SCRATCH = sys.argv[3] if len(sys.argv) > 3 else "/tmp/mut"
REPO = os.path.join(SCRATCH, "repo")
VERIF = os.path.join(SCRATCH, "verif")

FILES = {
    "src/solvers/preferred_semantics_solver.rs": ["C03", "C01", "C07", "C18"],
    "src/solvers/complete_semantics_solver.rs": ["C02", "C07", "C04"],
    "src/solvers/stable_semantics_solver.rs": ["C02", "C03", "C01", "C07"],
    "src/solvers/maximal_range_semantics_solvers.rs": ["C02", "C03", "C04", "C07", "C18"],
    "src/solvers/ideal_semantics_solver.rs": ["C02", "C01", "C04", "C07"],
    "src/solvers/maximal_extension_computer.rs": ["C03", "C01", "C18", "C08"],
    "src/solvers/grounded_semantics_solver.rs": ["C02", "C03", "C04", "C07"],
    "src/utils/grounded_extension_computer.rs": ["C01", "C11"],
    "src/utils/connected_components_computer.rs": ["C04", "C07", "C11"],
    "src/utils/equivalency_computer.rs": ["C19"],
    "src/utils/label.rs": ["C12"],
    "src/aa/aa_framework.rs": ["C12", "C09"],
    "src/encodings/aux_var_constraints_encoder.rs": ["C10"],
    "src/encodings/exp_constraints_encoder.rs": ["C10"],
    "src/encodings/hybrid_complete_constraints_encoder.rs": ["C10"],
    "src/encodings/stable_constraints_encoder.rs": ["C10", "C02"],
    "src/dynamics/dynamic_constraints_encoder.rs": ["C08"],
    "src/dynamics/buffered_dynamic_constraints_encoder.rs": ["C08", "C09"],
    "src/dynamics/dynamic_preferred_semantics_solver.rs": ["C08"],
    "src/dynamics/dynamic_stable_semantics_solver.rs": ["C08"],
    "src/dynamics/dynamic_complete_semantics_solver.rs": ["C08"],
    "src/dynamics/assumptions_on_attacks/dynamic_constraints_encoder_attacks.rs": ["C08"],
    "src/dynamics/assumptions_on_attacks/dynamic_stable_semantics_solver_attacks.rs": ["C08"],
    "src/io/iccma23_reader.rs": ["C13"],
    "src/io/aspartix_reader.rs": ["C13"],
    "src/io/aspartix_writer.rs": ["C14"],
    "src/io/iccma23_writer.rs": ["C14", "C05", "C04"],
    "src/sat/buffered_sat_solver.rs": ["C16", "C15", "C17"],
    "src/sat/external_sat_solver.rs": ["C16", "C15"],
    "src/sat/cadical_solver.rs": ["C15"],
    "src/app/solve_command.rs": ["C05"],
    "src/aa/problem.rs": ["C05"],
}

# (pattern, replacement) pairs applied to ONE occurrence outside comments and tests
RULES = [
    (r" >= ", " > "), (r" > ", " >= "), (r" <= ", " < "), (r" < ", " <= "), (r" == ", " != "), (r" != ", " == "),
    (r" && ", " || "), (r" \|\| ", " && "), (r"\btrue\b", "false"), (r"\bfalse\b", "true"),
    (r" \+ 1\b", ""), (r" - 1\b", ""), (r"\.negate\(\)", ""), (r"\bis_some\(\)", "is_none()"), (r"\bis_none\(\)", "is_some()"),
    (r"\.any\(", ".all("), (r"\.all\(", ".any("), (r"\bSome\(true\)", "Some(false)"), (r" \+= 1;", " += 2;"), (r"!(\w)", r"\1"),
    (r"\bcontinue;", "break;"), (r"\.is_empty\(\)", ".len() == 1"), (r" << 1\b", ""), (r"\.rev\(\)", ""),
]


def sh(cmd, cwd, timeout, env=None):
    e = dict(os.environ)
    e["CARGO_NET_OFFLINE"] = "true"
    if env:
        e.update(env)
    try:
        p = subprocess.run(cmd, cwd=cwd, env=e, stdout=subprocess.PIPE, stderr=subprocess.STDOUT, text=True, timeout=timeout, errors="replace")
        return p.returncode, p.stdout
    except subprocess.TimeoutExpired:
        return 124, "timeout"


def candidate_sites(path):
    txt = open(path).read()
    cut = txt.find("#[cfg(test)]")
    body = txt if cut < 0 else txt[:cut]
    sites = []
    off = 0
    for line in body.split("\n"):
        stripped = line.strip()
        code = line.split("//")[0]
        if stripped and not stripped.startswith("//") and not stripped.startswith("#") and "panic!" not in code and "expect(" not in code and "info!" not in code and "warn!" not in code:
            for ri, (pat, rep) in enumerate(RULES):
                for m in re.finditer(pat, code):
                    sites.append((off + m.start(), off + m.end(), ri))
        off += len(line) + 1
    return txt, sites


def main():
    seed, count = int(sys.argv[1]), int(sys.argv[2])
    rng = random.Random(seed)
    out = open(os.path.join(SCRATCH, "results.jsonl"), "a")
    files = sorted(FILES)
    done = 0
    attempts = 0
    while done < count and attempts < count * 6:
        attempts += 1
        f = rng.choice(files)
        path = os.path.join(REPO, f)
        txt, sites = candidate_sites(path)
        if not sites:
            continue
        a, b, ri = rng.choice(sites)
        pat, rep = RULES[ri]
        new_piece = re.sub(pat, rep, txt[a:b], count=1)
        mutated = txt[:a] + new_piece + txt[b:]
        line_no = txt[:a].count("\n") + 1
        desc = {"file": f, "line": line_no, "rule": "%s -> %s" % (pat, rep), "before": txt.split("\n")[line_no - 1].strip()[:160]}
        open(path, "w").write(mutated)
        t0 = time.time()
        try:
            rc, o = sh(["cargo", "build", "--offline", "--quiet"], REPO, 600)
            if rc != 0:
                desc["outcome"] = "does_not_compile"
                continue
            rc, o = sh(["cargo", "test", "--workspace", "--no-fail-fast", "--offline", "--quiet", "--lib", "--bins", "--tests"], REPO, 900)
            if rc != 0:
                desc["outcome"] = "killed_by_existing_tests"
                done += 1
                continue
            killed_by = []
            survived = []
            for chk in FILES[f]:
                rc, o = sh([os.path.join(VERIF, "bin", "check"), chk, "--tier", "quick"], VERIF, 2400, env={"VERIF_REPO": REPO})
                if rc == 1 and "VIOLATION" in o:
                    killed_by.append(chk)
                    break
                elif rc == 2:
                    desc.setdefault("tool_errors", []).append(chk + ": " + o[-300:])
                    # a tool error is not a detection; go on with the next check
                    survived.append(chk)
                else:
                    survived.append(chk)
            desc["outcome"] = "killed_by_checks" if killed_by else "survived"
            desc["killed_by"] = killed_by
            desc["checks_passed"] = survived
            done += 1
        finally:
            desc["wall_s"] = round(time.time() - t0, 1)
            open(path, "w").write(txt)
            out.write(json.dumps(desc) + "\n")
            out.flush()
            print(json.dumps(desc)[:300], flush=True)


if __name__ == "__main__":
    main()
