#!/usr/bin/env python3
"""mkseedprompt.py <Cxx> <suffix>: prompt for a seeding sub-agent (property text + summaries of the seeds that already exist, nothing else
from /verif); prepares the scratch worktree /tmp/seed/<Cxx><suffix> with a warm target directory."""
import json, os, subprocess, sys, glob
pid, suf = sys.argv[1], sys.argv[2]
prop = [json.loads(l) for l in open("/verif/properties.jsonl") if json.loads(l)["id"] == pid][0]
wt = "/tmp/seed/%s%s" % (pid, suf)
os.makedirs("/tmp/seed", exist_ok=True)
os.makedirs("/tmp/seedprompts", exist_ok=True)
if not os.path.isdir(wt):
    subprocess.check_call(["git", "-C", "/repo", "worktree", "add", "--detach", wt, "HEAD"], stdout=subprocess.DEVNULL)
    if os.path.isdir("/repo/target"):
        subprocess.call(["cp", "-a", "/repo/target", wt + "/target"])
mech = "\n".join("    - %s  [%s]" % (m["name"], m["where"]) for m in prop["anchors"]["mechanism"])
existing = []
for d in sorted(glob.glob("/verif/seeded/%s-*" % pid)):
    try:
        existing.append("- " + json.load(open(d + "/meta.json"))["summary"][:500])
    except Exception:
        pass
txt = open("/verif/tools/seedprompt.tmpl").read()
txt = txt.replace("@WT@", wt).replace("@ID@", pid).replace("@TITLE@", prop["title"]).replace("@STATEMENT@", prop["statement"])
txt = txt.replace("@QUANT@", prop["quantifier"]["text"]).replace("@FILES@", ", ".join(prop["anchors"]["files"])).replace("@MECH@", mech)
txt = txt.replace("@EXISTING@", "\n".join(existing))
open("/tmp/seedprompts/%s%s.txt" % (pid, suf), "w").write(txt)
print("/tmp/seedprompts/%s%s.txt" % (pid, suf), wt)
