#!/usr/bin/env python3
"""Regenerates /verif/MANIFEST.json from the table below (single source of truth for the interface)."""
import json, os
V = os.path.dirname(os.path.dirname(os.path.abspath(__file__)))
ALL = ["C%02d" % i for i in range(1, 20)]

CLAIMED = {
 "C01": dict(tech="TLC-judged traces of the real solvers (Dung.tla oracle) under exhaustive SAT-oracle exploration; MCDung theorems",
             text="TLC evaluates `ext in Fam(af, sem)`, none-iff-none and well-formedness on every single-extension answer of the real solver types, for ALL frameworks <= 3 arguments (every presentation: compact, sparse ids, duplicated ICCMA lines; every selectable encoder; every SAT-model choice explored depth-first), isomorphism classes of 4-argument frameworks, shaped frameworks (components, cycles, self-attackers, hybrid-threshold funnels) and seeded random ones; the semantics' theorems are model-checked over all frameworks <= 3 (4 thorough) arguments.",
             ref="5 (C01), 3.1, 4"),
 "C02": dict(tech="TLC-judged traces of the real solvers (Dung.tla oracle) under exhaustive SAT-oracle exploration",
             text="TLC evaluates `status = (exists E in Fam : a in E)` on every credulous answer of the real solvers, same exploration as C01 with every argument of every framework.",
             ref="5 (C02/C03)"),
 "C03": dict(tech="TLC-judged traces of the real solvers (Dung.tla oracle) under exhaustive SAT-oracle exploration",
             text="TLC evaluates `status = (forall E in Fam : a in E)` on every skeptical answer of the real solvers; the oracle exploration supplies the model orders under which a missing or over-strong blocking clause shows.",
             ref="5 (C02/C03)"),
 "C04": dict(tech="TLC-judged traces of the real *_with_certificate entry points (Dung.tla oracle)",
             text="TLC evaluates certificate presence (iff promised), membership in Fam(af, sem) (CO for DC-PR), witness condition and label/id well-formedness on every certificate returned by the API and on every `w` line printed by both binaries (instances with certificates of > 1000 members included); multi-component, sparse-id, padded (40-500 arguments) and grounded-reducible (20-300 arguments) frameworks.",
             ref="5 (C04)"),
 "C07": dict(tech="TLC-judged traces of list queries on all static solvers (disjunctive Cred/Skep of Dung.tla)",
             text="All lists of 1..2 (quick) / 1..3 (thorough) arguments with repetition on all frameworks <= 3 arguments, 4-argument classes, shaped multi-component and random frameworks, both entry points; TLC evaluates the disjunctive reference value.",
             ref="5 (C07)"),
 "C08": dict(tech="TLC-judged traces of the six dynamic solver types; logical framework carried by Store.tla inside TraceDynamic.tla",
             text="Every update history leading to a distinct state of Store.tla (3 labels; exported by TLC) is executed on 13 solver configurations (6 types, 5 reservation factors, recompute wrapper over 4 semantics) with query rounds at random intermediate points, under CaDiCaL and under a seeded random SAT-model choice, plus every query-free batch of <= 5 effective updates from every logical state over 2 labels (MCBatch), the static checks' frameworks built through update histories (targets) and random walks of 40-300 operations; TLC carries the logical framework with Store.tla's Step and judges every status and certificate against Dung.tla.",
             ref="5 (C08), 3.6"),
 "C09": dict(tech="TLC-judged traces of the dynamic solvers with redundant/invalid updates; results and later answers judged against Store.tla + Dung.tla",
             text="Same histories as C08 with redundant (existing argument/attack) and invalid (unknown operand) operations inserted at random positions; TLC checks the Ok/Err result of each update against Store.tla's Step and every later answer against the framework without the rejected or redundant operation.",
             ref="5 (C09)"),
 "C12": dict(tech="TLC model checking of StoreImpl (Rust vectors/counters transcribed) refining Store.tla; every (state, operation) edge of Store.tla replayed into the real AAFramework and judged by TLC",
             text="MCStoreImpl proves refinement and agreement of all public observations for all concrete states (3 labels/3 ids/4 attack slots; 2 labels/4 ids/5 slots); MCStore exports one history per abstract state (3 labels, <= 4 ids: 13k states) and all 24 outgoing operations of each are executed on AAFramework<usize> and AAFramework<String>; TraceStore compares results and the complete public projection (counts, ids, get/has, iter_attacks, iter_attacks_from/to) at every step; plus random histories.",
             ref="5 (C12), 3.2"),
 "C06": dict(tech="TLC-judged 'agree' events: one real solver object per configuration answers query sequences; all statuses of a query must coincide",
             text="For each framework and (semantics, DC|DS), one solver object per (encoder, backend in {embedded CaDiCaL, external process}) answers a seeded sequence of queries with repetitions and alternating certificate flag; TLC checks that the set of statuses obtained for a query over all configurations and positions is a singleton, and that the framework's public projection is unchanged.",
             ref="5 (C06)"),
 "C15": dict(tech="Sat.tla contract; MCSat-exported histories replayed on CadicalSolver and ExternalSatSolver; TLC judges every model / UNSAT verdict by brute force",
             text="One history per distinct solver state of Sat.tla (3 variables, empty/unit/binary clauses) with interleaved solves and all assumption sets, plus random histories over 4-8 variables, on the embedded solver and on external processes (kissat, fakesat); TraceSat carries the clause set and checks model |= clauses and assumptions, UNSAT only if TLC finds no model, n_vars covers declared variables.",
             ref="5 (C15), 3.5"),
 "C16": dict(tech="ExtSat.tla process/pipe model checked by TLC (termination of drain-then-wait); ExtReply.tla reply classification exported and replayed through a real process; headers logged by the external program; TLC judges all three",
             text="(i) every DIMACS instance received by the external program during real queries is checked for nv >= max variable and exact clause count; (ii) TLC proves the drain-then-wait exchange terminates for all volumes around the pipe capacity and four child behaviours, and real calls with replies of 1 KiB..8 MiB, split v lines and early replies must return within a cap; (iii) all replies of <= 3 (4) lines over 13 line kinds are classified by the specification and read by the real parser.",
             ref="5 (C16), 3.5"),
 "C17": dict(tech="fault injection at every SAT-call position through the public solver factory + failing external processes; TLC-judged fault events",
             text="For every query on all frameworks <= 3 arguments (and 4-argument classes, shaped, random) a fault-free run counts the k SAT calls, then k runs return Unknown at position 1..k; six failing process behaviours are run through ExternalSatSolver; TLC checks that an injected fault always aborts the query with neither status nor extension. Faults are also injected at the K-th call through a real process (fakesat failat:K) on list queries over several components, and at the command line (`crustabri solve --external-sat-solver`, small files and files above 1 MiB): non-zero exit status and no answer on stdout whenever the failing call was reached.",
             ref="5 (C17)"),
 "C18": dict(tech="SAT calls counted and decoded per component through the public factory/encoder wrappers under exhaustive oracle exploration; bound evaluated by TLC from Dung.tla",
             text="Every query (single arguments and lists) on all frameworks <= 3 arguments under every SAT-model schedule, plus 4-argument classes, shaped and random frameworks: per query and per component the number of SAT calls (summed over solver instances) must not exceed the bound TLC computes from the component's base family, and PR never examines a candidate twice; a call cap observes non-termination.",
             ref="5 (C18)"),
 "C05": dict(tech="Cli.tla outcome function; MCCli-exported invocation space run through the real binaries; TLC judges exit status, stdout shape and answer content",
             text="The abstract invocation space (9492 legal combinations of binary, file kind, format, problem class, query kind, argument class, encoding, certificate flag, logging level) is enumerated by TLC with the outcome Cli.tla assigns; invocations are concretised on frameworks in both formats and run through crustabri and the ICCMA'23 wrapper; TLC checks exit status, that refusals print no answer, the exact shape of answers and their content (C01-C04 predicates); --problems must list exactly the 21 problems.",
             ref="5 (C05), 3.7"),
 "C10": dict(tech="Enc.tla transcription model-checked by brute force; real clause sets captured through SatSolver::add_clause, all models enumerated, judged by TLC against Dung.tla",
             text="MCEnc proves for all frameworks <= 3 arguments that every encoder's models project exactly onto the intended family (hybrid threshold lowered to 2 to exercise both sides) and the range clauses; the real encoders' clause sets (all frameworks <= 3 arguments, 4-argument classes, funnels on both sides of threshold 32, random) are captured with reused encoder objects, all models enumerated, and TLC checks projection = intended family, range conditions and literal layout.",
             ref="5 (C10), 3.4"),
 "C11": dict(tech="metamorphic relations as MCDung theorems; pairs of real runs on transformed frameworks (20-300 arguments) and cross-semantics consistency judged by TLC",
             text="Relations (isomorphism invariance, product over components, ST/SST/STG coincidence, DC-CO = DC-PR, GR in ID in PR, skeptical implies credulous) are theorems checked over all frameworks <= 3 (4) arguments; on 250+ frameworks of 20-300 arguments and 700+ smaller ones the same queries are run on 4 transforms and TLC checks the expected statuses and polynomial necessary conditions on returned sets.",
             ref="5 (C11), 3.7"),
 "C13": dict(tech="Reader.tla verdicts over line kinds; MCReader-exported abstract files concretised and read by the real readers; byte/token fuzz for totality; TLC judges",
             text="All abstract files of <= 4 (5) lines over 18 ICCMA / 17 Aspartix line kinds are classified by the specification (must accept as exactly this framework / must reject / unspecified), checked against the readers' own state machines in TLA+, concretised in several byte-level variants and read by the real readers; query-argument strings; 60k (400k) corrupted / random inputs for totality.",
             ref="5 (C13), 3.7"),
 "C14": dict(tech="Store.tla state carried by TLC vs. framework written by AspartixWriter and read back; response writers tokenised and compared by TLC",
             text="Random update histories (tombstones, id holes) on AAFramework<String>; after random steps the framework is written in Aspartix format and read back, and TLC compares labels in order, attack set and line count with the abstract state it carried itself; extensions (incl. empty), statuses and 'no extension' through both response writers must read back exactly.",
             ref="5 (C14)"),
 "C19": dict(tech="EquivalencyComputer output judged by TLC: classes sound w.r.t. CO(af) of Dung.tla, mappings total and inverse",
             text="All frameworks <= 3 arguments, 4-argument classes, shaped, random and grounded-mix frameworks (propagation-sensitive shapes) through the reducer; TLC computes CO(af) and checks that merged arguments belong to the same complete extensions, that classes partition the arguments and that the two mappings are inverse on classes. The clause 'grounded arguments together, defeated arguments together' is judged on every framework; frameworks of 20-500 arguments (64-200 unattacked arguments, small undecided part) are judged through the grounded reduct (MCDung ReductTheorem, TLAPS proofs/ReductLemma).",
             ref="5 (C19)"),
}

NOTE = ("Trusted: TLC + CommunityModules; Dung.tla (cross-checked by MCDung's theorem suite); the harness wrappers around the public extension "
        "points (SatSolverFactoryFn, ConstraintsEncoder) and its CaDiCaL-based model enumerator; bin/check's mapping of TLC output to exit codes. "
        "Exhaustive only within the stated bounds; beyond them seeded-random and shape-directed.")

def main():
    checks = []
    for pid in ALL:
        if pid not in CLAIMED:
            continue
        c = CLAIMED[pid]
        checks.append({
            "property_id": pid,
            "quick_cmd": "bin/check %s --tier quick" % pid,
            "thorough_cmd": "bin/check %s --tier thorough" % pid,
            "evidence_file": "/verif/evidence/%s.json" % pid,
            "replay_cmd_template": "bin/check replay {path}",
            "engine": "tlc+vh",
            "level_claimed": {"category": "model_checking", "text": c["text"], "design_ref": "DESIGN.md section " + c["ref"]},
            "level_note": c.get("note", NOTE),
            "technique": c["tech"],
        })
    na = [{"property_id": p, "reason": "check not built yet (planned: DESIGN.md section 5); not claimed"} for p in ALL if p not in CLAIMED]
    m = {
        "version": 1,
        "setup_cmd": "cd /verif/harness && cp -n /repo/Cargo.lock Cargo.lock; CARGO_NET_OFFLINE=true cargo build --offline --quiet && cd /verif/spec && for m in *.tla; do tla-sany $m >/dev/null || exit 1; done",
        "hooks": {"guard": "crustabri_verif", "enable": "RUSTFLAGS='--cfg crustabri_verif' (set in /verif/harness/.cargo/config.toml; applies to the path dependency /repo)",
                  "baseline_off_cmd": "cd /repo && cargo test --workspace --no-fail-fast --offline", "source_commits": [], "add_only": True},
        "engines": [{"name": "tlc+vh", "path": "/verif/bin/check", "serves_properties": sorted(CLAIMED),
                     "kind_free_text": "explicit TLA+ specifications (spec/*.tla) checked with TLC; Rust conformance harness (harness/, binary vh) drives the real code and records ndjson traces; TLC judges the traces with Trace*.tla"}],
        "checks": checks,
        "not_applicable": na,
        "notes": "See DESIGN.md. Exit codes: 0 held, 1 VIOLATION (+replay file), 2 tool error. known_findings.json lists recorded / fixed defects.",
    }
    json.dump(m, open(os.path.join(V, "MANIFEST.json"), "w"), indent=1)
    print("MANIFEST.json: %d checks, %d not applicable" % (len(checks), len(na)))

main()
