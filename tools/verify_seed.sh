#!/bin/sh
# verify_seed.sh <seed-dir> <scratch-worktree>: confirm that a seeded change (a) applies to /repo's HEAD, (b) compiles and
# passes the existing suite, (c) its demonstration fails with the change and passes without it.  Writes <seed-dir>/verified.txt
sd=$1; wt=$2
head=$(git -C /repo rev-parse HEAD)
cd "$wt" || exit 2
rm -f tests/seed_demo.rs; git checkout -q -- . ; git checkout -q --detach "$head" || exit 2
export CARGO_NET_OFFLINE=true
r_apply=no; r_suite=no; r_demo_with=unknown; r_demo_without=unknown
if git apply "$sd/patch.diff"; then r_apply=yes; else echo "apply=no" > "$sd/verified.txt"; exit 1; fi
if cargo test --workspace --no-fail-fast --offline > /tmp/vs_$$.log 2>&1; then r_suite=pass; else r_suite=FAIL; fi
npass=$(grep -E "^test result" /tmp/vs_$$.log | sed 's/.*ok\. \([0-9]*\) passed.*/\1/' | paste -sd+ | bc)
cp "$sd/demo.rs" tests/seed_demo.rs
if cargo test --offline --test seed_demo > /tmp/vs_$$.log 2>&1; then r_demo_with=PASSES; else r_demo_with=fails; fi
git apply -R "$sd/patch.diff"
if cargo test --offline --test seed_demo > /tmp/vs_$$.log 2>&1; then r_demo_without=passes; else r_demo_without=FAILS; fi
rm -f tests/seed_demo.rs /tmp/vs_$$.log
echo "head=$head apply=$r_apply suite_with_change=$r_suite($npass) demo_with_change=$r_demo_with demo_without_change=$r_demo_without" | tee "$sd/verified.txt"
