"""C05: runs the real binaries on concretised abstract invocations (exported by MCCli) and records cli events."""
import json, os, random, subprocess, concurrent.futures as cf

SEMS = ["GR", "CO", "PR", "ST", "SST", "STG", "ID"]


def iccma_file(a):
    return "p af %d\n" % a["n"] + "".join("%d %d\n" % (x, y) for x, y in a["att"])


def apx_file(a):
    return "".join("arg(a%d).\n" % i for i in range(1, a["n"] + 1)) + "".join("att(a%d,a%d).\n" % (x, y) for x, y in a["att"])


def write_files(a, d, idx):
    """all file kinds for one framework; returns dict (fmt, kind) -> path"""
    n = a["n"]
    f = {}

    def w(name, text):
        p = os.path.join(d, "af%d_%s" % (idx, name))
        with open(p, "wb") as fh:
            fh.write(text.encode("latin-1") if isinstance(text, str) else text)
        return p
    f[("iccma", "good")] = w("good.af", iccma_file(a))
    f[("apx", "good")] = w("good.apx", apx_file(a))
    f[("iccma", "missing")] = os.path.join(d, "af%d_does_not_exist.af" % idx)
    f[("apx", "missing")] = os.path.join(d, "af%d_does_not_exist.apx" % idx)
    f[("iccma", "badheader")] = w("badheader.af", "p aff %d\n" % n + "".join("%d %d\n" % (x, y) for x, y in a["att"]))
    f[("iccma", "outofrange")] = w("oor.af", iccma_file(a) + "1 %d\n" % (n + 1))
    f[("iccma", "afterblank")] = w("afterblank.af", "p af %d\n\n1 1\n" % n)
    f[("apx", "undeclared")] = w("undeclared.apx", apx_file(a) + "att(a1,zz).\n")
    f[("apx", "argafteratt")] = w("argafteratt.apx", apx_file(a) + "att(a1,a1).\narg(b).\n")
    # a comment line that is not valid UTF-8 (Latin-1 "généré"), BEFORE the attacks
    f[("iccma", "bincomment")] = w("bincomment.af", ("p af %d\n# g\xe9n\xe9r\xe9 par un outil\n" % n) + "".join("%d %d\n" % (x, y) for x, y in a["att"]))
    f[("iccma", "wrongformat")] = f[("apx", "good")]      # an Aspartix file handed to the ICCMA reader
    f[("apx", "wrongformat")] = f[("iccma", "good")]
    return f


def casing(s, rng):
    c = rng.randrange(3)
    return s if c == 0 else s.lower() if c == 1 else "".join(ch.lower() if i % 2 else ch for i, ch in enumerate(s))


def concretise(inv, a, files, rng, bins, sems=None):
    n = a["n"]
    sem = rng.choice(sems or SEMS)
    argv = [bins[inv["bin"]]]
    if inv["bin"] == "crustabri":
        argv.append("solve")
    argv += ["-f", files[(inv["fmt"], inv["file"])]]
    if inv["bin"] == "crustabri":
        if inv["fmt"] == "apx":
            argv += ["-r", "apx"]
        elif rng.random() < 0.5:
            argv += ["--reader", "iccma23"]
    pc = inv["pclass"]
    if pc == "valid":
        argv += ["-p", casing("%s-%s" % (inv["kind"], sem), rng)]
    elif pc == "nohyphen":
        argv += ["-p", "SE" + sem]
    elif pc == "badquery":
        argv += ["-p", "XX-" + sem]
    elif pc == "badsem":
        argv += ["-p", "SE-XX"]
    elif pc == "trailing":
        argv += ["-p", "%s-%s-%s" % (rng.choice(["SE", "DC", "DS"]), sem, rng.choice(["foo", "1", "CO", sem]))]
    elif pc == "trailinghyphen":
        argv += ["-p", "%s-%s-" % (rng.choice(["SE", "se"]), sem)]
    elif pc == "unicodefold":
        # characters whose Unicode upper-/lower-casing yields ASCII letters: none of these strings is one of the 21 problems
        name = "%s-%s" % (rng.choice(["SE", "DC", "DS"]), sem)
        subs = [("S", "\u017f"), ("ST", "\ufb06"), ("ST", "\ufb05"), ("SS", "\u00df"), ("I", "\u0131"), ("s", "\u017f")]
        cands = [name.replace(a, b, 1) for a, b in subs if a in name] + [name.lower().replace(a, b, 1) for a, b in subs if a in name.lower()]
        argv += ["-p", rng.choice([c for c in cands if c != name and c != name.lower()] or ["\u017fE-GR"])]
    elif pc == "padded":
        argv += ["-p", rng.choice(["SE-%s ", " SE-%s", "SE -%s", "SE- %s"]) % sem]
    args = []
    ac = inv["argc"]
    lab = (lambda i: "a%d" % i) if inv["fmt"] == "apx" else str
    if ac == "valid":
        k = rng.randint(1, n)
        args = [k]
        argv += ["-a", lab(k)]
    elif ac == "toobig":
        # beyond the last argument -- also by a multiple of 2^16 / 2^32 / 2^64 (an index must not be taken modulo anything)
        k = rng.randint(1, n)
        big = rng.choice([n + 1, n + 1, 65536 + k, 4294967296 + k, 18446744073709551616 + k, 99999999999999999999])
        argv += ["-a", lab(big)]
    elif ac == "zero":
        argv += ["-a", "0"]
    elif ac == "negative":
        argv += ["-a", "-1"]
    elif ac == "nan":
        argv += ["-a", "x!"]
    if inv["bin"] == "crustabri":
        if inv["enc"] != "unset":
            argv += ["--encoding", "foo" if inv["enc"] == "invalid" else inv["enc"]]
        if inv["cert"]:
            argv.append("-c")
        if inv["log"] == "off":
            argv += ["--logging-level", "off"]
    return argv, sem, args


def parse_stdout(out, fmt):
    lines = out.split("\n")
    if lines and lines[-1] == "":
        lines = lines[:-1]
    nlog = sum(1 for l in lines if l.startswith("!["))
    ans = [l for l in lines if not l.startswith("![")]
    status, wline, wargs, malformed = "", False, [], False
    for i, l in enumerate(ans):
        if l in ("YES", "NO") and i == 0:
            status = l
        elif fmt == "iccma" and (l == "w" or l.startswith("w ")) and not wline:
            wline = True
            for t in l.split(" ")[1:]:
                if t.isdigit():
                    wargs.append(int(t))
                else:
                    malformed = True
        elif fmt == "apx" and l.startswith("[") and l.endswith("]") and not wline:
            wline = True
            body = l[1:-1]
            for t in (body.split(",") if body else []):
                if t.startswith("a") and t[1:].isdigit():
                    wargs.append(int(t[1:]))
                else:
                    malformed = True
        else:
            malformed = True
    return len(ans), status, wline, wargs, malformed, nlog


def run_one(job):
    inv, argv, sem, args = job
    try:
        p = subprocess.run(argv, stdout=subprocess.PIPE, stderr=subprocess.DEVNULL, timeout=60, text=True, errors="replace")
        out, rc, to = p.stdout, p.returncode, False
    except subprocess.TimeoutExpired:
        out, rc, to = "", -1, True
    nl, status, wline, wargs, malformed, nlog = parse_stdout(out, inv["fmt"])
    return {"ev": "cli", "inv": inv, "sem": sem, "args": args, "exit": rc, "timeout": to, "nlines": nl, "status": status, "wline": wline,
            "wargs": wargs, "malformed": malformed, "nlog": nlog, "argv": argv[1:]}


def run_all(invs, afs, workdir, bins, seed, per_af, sems=None, subdir="clifiles"):
    """returns segments: [af event, cli events...] ; invocations are dealt round-robin over the frameworks"""
    rng = random.Random(seed)
    d = os.path.join(workdir, subdir)
    os.makedirs(d, exist_ok=True)
    rng.shuffle(invs)
    segs, jobs, owners = [], [], []
    k = 0
    for idx, a in enumerate(afs):
        files = write_files(a, d, idx)
        segs.append([{"ev": "af", "idx": idx, "n": a["n"], "args": list(range(1, a["n"] + 1)), "ids": [], "att": a["att"],
                      "present": "file", "tag": a.get("tag", ""), "sems": sorted(set(sems or SEMS))}])
        for _ in range(per_af):
            if k >= len(invs):
                break
            inv = invs[k]
            k += 1
            argv, sem, args = concretise(inv, a, files, rng, bins, sems)
            jobs.append((inv, argv, sem, args))
            owners.append(idx)
    with cf.ThreadPoolExecutor(max_workers=os.cpu_count() or 4) as ex:
        for idx, ev in zip(owners, ex.map(run_one, jobs)):
            segs[idx].append(ev)
    return segs, k


def big_instances(seed, count):
    """instances with 1100-2600 arguments: mostly isolated arguments, plus chains and even cycles (extensions of > 1000 arguments)"""
    rng = random.Random(seed)
    res = []
    for _ in range(count):
        n = rng.randint(1100, 2600)
        att = []
        k = n - rng.randint(20, 60)
        a = k
        while a + 1 < n:          # the tail: chains and 2-cycles
            if rng.random() < 0.5:
                att += [(a, a + 1), (a + 1, a)]
            else:
                att += [(a, a + 1)]
            a += rng.choice([1, 2])
        res.append({"n": n, "att": [[x, y] for x, y in sorted(set(att))], "tag": "big"})
    return res


def run_big(afs, workdir, bins, seed, queries=(("SE", "GR"), ("SE", "ST"), ("SE", "PR"), ("DC", "CO"), ("DS", "ST"), ("SE", "CO"))):
    rng = random.Random(seed)
    d = os.path.join(workdir, "clifiles")
    os.makedirs(d, exist_ok=True)
    segs, jobs, owners = [], [], []
    for idx, a in enumerate(afs):
        files = write_files(a, d, 100000 + idx)
        segs.append([{"ev": "af", "idx": idx, "n": a["n"], "args": list(range(1, a["n"] + 1)), "ids": [], "att": a["att"], "present": "file",
                      "tag": "big", "sems": [], "big": True}])
        for b, fmt in (("crustabri", "iccma"), ("crustabri", "apx"), ("iccma23", "iccma")):
            for kind, sem in queries:
                inv = {"bin": b, "file": "good", "fmt": fmt, "pclass": "valid", "kind": kind, "argc": "absent" if kind == "SE" else "valid",
                       "enc": "unset", "cert": True, "log": "off"}
                argv = [bins[b]] + (["solve"] if b == "crustabri" else []) + ["-f", files[(fmt, "good")]]
                if b == "crustabri":
                    argv += ["-r", "apx"] if fmt == "apx" else []
                argv += ["-p", "%s-%s" % (kind, sem)]
                args = []
                if kind != "SE":
                    x = rng.randint(a["n"] - 15, a["n"])
                    args = [x]
                    argv += ["-a", ("a%d" % x) if fmt == "apx" else str(x)]
                if b == "crustabri":
                    argv += ["-c", "--logging-level", "off"]
                jobs.append((inv, argv, sem, args))
                owners.append(idx)
    with cf.ThreadPoolExecutor(max_workers=os.cpu_count() or 4) as ex:
        for idx, ev in zip(owners, ex.map(run_one, jobs)):
            ev["big"] = True
            segs[idx].append(ev)
    return segs


def problems_events(bins):
    evs = []
    for b, argv in (("crustabri", [bins["crustabri"], "problems", "--logging-level", "off"]), ("iccma23", [bins["iccma23"], "--problems"])):
        p = subprocess.run(argv, stdout=subprocess.PIPE, stderr=subprocess.DEVNULL, timeout=60, text=True)
        lines = [l for l in p.stdout.split("\n") if l and not l.startswith("![")]
        listed = []
        if len(lines) == 1 and lines[0].startswith("[") and lines[0].endswith("]"):
            listed = lines[0][1:-1].split(",")
        evs.append({"ev": "problems", "bin": b, "exit": p.returncode, "listed": listed})
    return evs


ICCMA_TEXT = {"cmt": "# a comment 1 2", "empty": "", "ws": "  ", "hdr": "p af 3", "hdr0": "p af 0", "hdrKind": "p cnf 3", "hdrP": "q af 3",
              "hdrNum": "p af x", "hdrNeg": "p af -1", "hdrShort": "p af", "a12": "1 2", "a23": "2 3", "a33": "3 3", "aOOR": "1 4",
              "aZero": "0 1", "aOne": "1", "aThree": "1 2 3", "aNaN": "a b", "cmtBin": "# g\xe9n\xe9r\xe9 par un outil", "aBin": "1 \xe92", "aWrap64": "18446744073709551618 3", "aWrap32": "1 4294967298"}
APX_TEXT = {"argA": "arg(a).", "argB": "arg(b).", "argC": "arg(c).", "argSp": "arg( a ).", "argBad": "arg(1a).", "attAB": "att(a,b).",
            "attBC": "att(b,c).", "attCC": "att(c,c).", "attSp": "att( a , b ).", "attUnd": "att(a,z).", "attOne": "att(a).",
            "attThree": "att(a,b,c).", "attBad": "att(a,1b).", "junk": "hello.", "nodot": "arg(a)", "empty": "", "ws": "   "}


def check_command_events(files, workdir, bins, seed, count):
    """`crustabri check -f FILE -r FORMAT` on concretised abstract files (same line-kind texts as harness/src/io.rs)"""
    rng = random.Random(seed)
    d = os.path.join(workdir, "checkfiles")
    os.makedirs(d, exist_ok=True)
    sel = rng.sample(files, min(count, len(files)))
    jobs = []
    for i, f in enumerate(sel):
        table = ICCMA_TEXT if f["fmt"] == "iccma" else APX_TEXT
        text = "".join(table[k] + "\n" for k in f["lines"])
        p = os.path.join(d, "f%d.%s" % (i, "af" if f["fmt"] == "iccma" else "apx"))
        with open(p, "wb") as fh:
            fh.write(text.encode("latin-1"))
        jobs.append((f, [bins["crustabri"], "check", "-f", p, "-r", "iccma23" if f["fmt"] == "iccma" else "apx", "--logging-level", "off"]))

    def one(job):
        f, argv = job
        try:
            pr = subprocess.run(argv, stdout=subprocess.PIPE, stderr=subprocess.DEVNULL, timeout=60, text=True, errors="replace")
            rc, to = pr.returncode, False
        except subprocess.TimeoutExpired:
            rc, to = -1, True
        return {"ev": "checkcmd", "fmt": f["fmt"], "lines": f["lines"], "exit": rc, "timeout": to}
    with cf.ThreadPoolExecutor(max_workers=os.cpu_count() or 4) as ex:
        return list(ex.map(one, jobs))


def _run_fault(job):
    argv, ctr, meta = job
    try:
        os.remove(ctr)
    except OSError:
        pass
    try:
        p = subprocess.run(argv, stdout=subprocess.PIPE, stderr=subprocess.DEVNULL, timeout=60, text=True, errors="replace")
        out, rc, to = p.stdout, p.returncode, False
    except subprocess.TimeoutExpired:
        out, rc, to = "", -1, True
    nl, status, wline, wargs, malformed, nlog = parse_stdout(out, "iccma")
    try:
        calls = int(open(ctr).read().strip() or 0)
        os.remove(ctr)
    except (OSError, ValueError):
        calls = 0
    ev = dict(meta)
    ev.update({"ev": "clifault", "exit": rc, "timeout": to, "nlines": nl, "status": status, "wline": wline, "calls": calls,
               "faulted": calls >= meta["at"], "argv": argv[1:]})
    return ev


def megabyte_instances(seed, count):
    """instances whose ICCMA file exceeds 1 MiB: 95 000-140 000 arguments, a few hundred thousand attack lines among the first thousands of them
    being too slow to solve is not the point -- nearly all arguments are isolated, the tail holds chains and 2-cycles, comments pad the file"""
    rng = random.Random(seed)
    res = []
    for _ in range(count):
        n = rng.randint(95000, 140000)
        att = []
        a = n - rng.randint(20, 60)
        while a + 1 < n:
            att += [(a, a + 1), (a + 1, a)] if rng.random() < 0.5 else [(a, a + 1)]
            a += rng.choice([1, 2])
        res.append({"n": n, "att": [[x, y] for x, y in sorted(set(att))], "tag": "megabyte"})
    return res


def fault_events(afs, workdir, bins, seed, fakesat, per_af=10, big=False):
    """C17 at the command line: `crustabri solve --external-sat-solver fakesat` whose K-th call (or every call) fails; the number of calls
    actually made is read from fakesat's counter file, so a query that never reaches the failing call is not judged"""
    rng = random.Random(seed)
    d = os.path.join(workdir, "clifaultfiles")
    os.makedirs(d, exist_ok=True)
    segs, jobs, owners = [], [], []
    modes = [("silent", 1), ("garbage", 1), ("nomodel", 1), ("truncated", 1), ("failat:1:silent", 1), ("failat:2:silent", 2), ("failat:3:garbage", 3), ("failat:2:nomodel", 2)]
    j = 0
    for idx, a in enumerate(afs):
        if a["n"] == 0:
            continue
        if big:
            # the file is padded with comment lines beyond 1 MiB; the judge is not given the 10^5 arguments (only exit status and stdout count)
            path = os.path.join(d, "big%d_%d.af" % (seed, idx))
            with open(path, "w") as fh:
                fh.write("p af %d\n" % a["n"])
                fh.write("# padding padding padding padding padding padding padding padding padding padding\n" * 14000)
                fh.write("".join("%d %d\n" % (x, y) for x, y in a["att"]))
            files = {("iccma", "good"): path}
            segs.append([{"ev": "af", "idx": idx, "n": a["n"], "args": [], "ids": [], "att": [], "present": "file", "tag": "megabyte", "sems": [], "big": True}])
        else:
            files = write_files(a, d, idx)
            segs.append([{"ev": "af", "idx": idx, "n": a["n"], "args": list(range(1, a["n"] + 1)), "ids": [], "att": a["att"], "present": "file",
                          "tag": a.get("tag", ""), "sems": []}])
        selfatt = [x for x, y in a["att"] if x == y]
        for _ in range(per_af):
            j += 1
            kind = rng.choice(["DC", "DS", "DS", "SE"])
            sem = rng.choice(["CO", "PR", "ST", "SST", "STG", "ID"])
            mode, at = modes[j % len(modes)]
            cert = rng.random() < 0.6
            argv = [bins["crustabri"], "solve", "-f", files[("iccma", "good")], "-p", "%s-%s" % (kind, sem), "--logging-level", "off"]
            args = []
            if kind != "SE":
                # self-attacking arguments are queried more often than their share (answers that need no SAT call)
                x = rng.choice(selfatt) if selfatt and rng.random() < 0.4 else rng.randint(a["n"] - 15 if big else 1, a["n"])
                args = [x]
                argv += ["-a", str(x)]
            if cert:
                argv.append("-c")
            enc = rng.choice([None, "aux_var", "exp", "hybrid"])
            if enc:
                argv += ["--encoding", enc]
            ctr = os.path.join(d, "ctr_%d_%d" % (seed, j))
            argv += ["--external-sat-solver", fakesat, "--external-sat-solver-opt=--counter", "--external-sat-solver-opt=" + ctr,
                     "--external-sat-solver-opt=--mode", "--external-sat-solver-opt=" + (mode if mode.startswith("failat") else "failat:1:" + mode)]
            jobs.append((argv, ctr, {"sem": sem, "kind": kind, "args": args, "cert": cert, "mode": mode, "at": at}))
            owners.append(len(segs) - 1)
    with cf.ThreadPoolExecutor(max_workers=os.cpu_count() or 4) as ex:
        for si, ev in zip(owners, ex.map(_run_fault, jobs)):
            segs[si].append(ev)
    return segs
