"""Driver library: harness build, TLC model checking, TLC as judge of recorded traces, evidence, findings.

Exit-code discipline (DESIGN.md 2.2): only T1 verdicts (a property-level predicate evaluated by TLC on an execution
of the real code is false) yield VIOLATION / exit 1.  Tool errors and timeouts exit 2.
"""
import json, os, re, subprocess, sys, time, shutil, hashlib, random

VERIF = os.path.dirname(os.path.dirname(os.path.abspath(__file__)))
SPEC = os.path.join(VERIF, "spec")
HARNESS = os.path.join(VERIF, "harness")
VH = os.path.join(HARNESS, "target", "debug", "vh")
REPO = os.environ.get("VERIF_REPO", "/repo")      # background exploration runs (vp run --with-repo) may point at a snapshot of /repo
NCPU = os.cpu_count() or 4


class ToolError(Exception):
    pass


def log(*a):
    print(*a, flush=True)


def seed():
    try:
        return int(os.environ.get("VERIF_SEED", "1"))
    except ValueError:
        return 1


def workdir(pid, clean=True):
    d = os.path.join(VERIF, "work", pid)
    if clean and os.path.isdir(d):
        shutil.rmtree(d, ignore_errors=True)
    os.makedirs(d, exist_ok=True)
    return d


def run(cmd, timeout=None, env=None, cwd=None, capture=True):
    e = dict(os.environ)
    if env:
        e.update(env)
    try:
        p = subprocess.run(cmd, cwd=cwd, env=e, timeout=timeout, stdout=subprocess.PIPE if capture else None,
                           stderr=subprocess.STDOUT if capture else None, text=True, errors="replace")
    except subprocess.TimeoutExpired as ex:
        raise ToolError("timeout after %ss: %s" % (timeout, " ".join(cmd[:4])))
    return p.returncode, (p.stdout or "")


def build_harness():
    """Always rebuilds against /repo's current working tree (path dependency)."""
    t = time.time()
    if REPO != "/repo":
        # only ever done in a snapshot of /verif used for a background run: registered checks always build against /repo itself
        ct = os.path.join(HARNESS, "Cargo.toml")
        txt = open(ct).read()
        if 'path = "/repo"' in txt:
            open(ct, "w").write(txt.replace('path = "/repo"', 'path = "%s"' % REPO))
    lock = os.path.join(HARNESS, "Cargo.lock")
    if not os.path.exists(lock):
        shutil.copy(os.path.join(REPO, "Cargo.lock"), lock)
    rc, out = run(["cargo", "build", "--offline", "--quiet"], cwd=HARNESS, timeout=1200,
                  env={"CARGO_NET_OFFLINE": "true"})
    if rc != 0:
        sys.stdout.write(out[-4000:])
        raise ToolError("harness build failed")
    return time.time() - t


def build_repo_bins():
    """debug binaries of /repo's current working tree (for CLI level checks)"""
    rc, out = run(["cargo", "build", "--offline", "--quiet", "--bins"], cwd=REPO, timeout=1200,
                  env={"CARGO_NET_OFFLINE": "true"})
    if rc != 0:
        sys.stdout.write(out[-4000:])
        raise ToolError("repo build failed")
    return os.path.join(REPO, "target", "debug")


class HarnessDied(ToolError):
    """the harness process was killed or aborted (memory exhaustion, abort, timeout) while running the code under test"""
    pass


def _limit_memory():
    import resource
    lim = 3 * 1024 ** 3
    resource.setrlimit(resource.RLIMIT_AS, (lim, lim))


def vh(args, timeout=3600):
    """runs the harness; its stderr (which external solver processes inherit) goes to work/vh_stderr.log"""
    os.makedirs(os.path.join(VERIF, "work"), exist_ok=True)
    errp = os.path.join(VERIF, "work", "vh_stderr.log")
    with open(errp, "ab") as ef:
        try:
            p = subprocess.run([VH] + [str(a) for a in args], stdout=subprocess.PIPE, stderr=ef, timeout=timeout, text=True, errors="replace",
                               preexec_fn=_limit_memory)
        except subprocess.TimeoutExpired:
            raise HarnessDied("timeout: vh %s" % " ".join(str(a) for a in args[:6]))
    if p.returncode < 0 or p.returncode in (134, 137, 139):
        raise HarnessDied("harness killed (status %d): vh %s" % (p.returncode, " ".join(str(a) for a in args[:6])))
    if p.returncode != 0:
        sys.stdout.write((p.stdout or "")[-2000:])
        try:
            sys.stdout.write(open(errp, errors="replace").read()[-2000:])
        except OSError:
            pass
        raise ToolError("harness command failed: vh %s" % " ".join(str(a) for a in args[:6]))
    if os.path.getsize(errp) > 50_000_000:
        open(errp, "w").close()
    return p.stdout or ""


# ----------------------------------------------------------------------------------------------------------------
# TLC
# ----------------------------------------------------------------------------------------------------------------
TLC_CP = "/opt/veriftools/tla/tla2tools.jar:/opt/veriftools/tla/CommunityModules-deps.jar"

_stat_re = re.compile(r"(\d+) states generated, (\d+) distinct states found")


def tlc(module, cfg, metadir, workers=1, timeout=1800, env=None, extra=None, xmx="4g", deque=False, xss=True):
    os.makedirs(metadir, exist_ok=True)
    jopts = []
    if xss:
        jopts.append("-Xss1g")
    if deque:
        jopts.append("-Dtlc2.tool.queue.IStateQueue=StateDeque")
    # TLC creates a scratch directory per run under java.io.tmpdir: kept inside the run's own (git-ignored) work directory, not in /tmp
    jtmp = os.path.join(metadir, "jtmp")
    os.makedirs(jtmp, exist_ok=True)
    jopts.append("-Djava.io.tmpdir=" + jtmp)
    cmd = ["java", "-XX:+UseParallelGC", "-Xmx" + xmx] + jopts + ["-cp", TLC_CP, "tlc2.TLC",
           "-workers", str(workers), "-metadir", metadir, "-cleanup", "-noGenerateSpecTE",
           "-config", cfg] + (extra or []) + [module]
    rc, out = run(cmd, cwd=SPEC, timeout=timeout, env=env)
    m = None
    for m in _stat_re.finditer(out):
        pass
    gen, dist = (int(m.group(1)), int(m.group(2))) if m else (0, 0)
    return {"rc": rc, "out": out, "generated": gen, "distinct": dist}


def mc(module, cfg=None, workers=None, timeout=1800, name=None, wd=None, constants=None, coverage=False):
    """Exhaustive model checking of a specification module.  A failure here is a defect of the *model*
    (it does not depend on /repo), hence a tool error, never a VIOLATION."""
    cfg = cfg or module.replace(".tla", ".cfg")
    name = name or cfg.replace(".cfg", "")
    workers = workers or max(2, NCPU // 2)
    t = time.time()
    extra = ["-coverage", "1"] if coverage else None
    r = tlc(module, cfg, os.path.join(wd, "mc_" + name), workers=workers, timeout=timeout, extra=extra)
    r["wall_s"] = round(time.time() - t, 1)
    r["name"] = name
    ok = "Model checking completed. No error has been found." in r["out"]
    if not ok:
        tail = "\n".join(l for l in r["out"].splitlines() if not l.startswith('<<"REF"'))[-3000:]
        sys.stdout.write(tail + "\n")
        raise ToolError("model checking of %s/%s did not complete cleanly" % (module, cfg))
    log("  MC %-28s %8d states (%d distinct) %5.1fs" % (name, r["generated"], r["distinct"], r["wall_s"]))
    return r


def mc_expect_violation(module, cfg, wd, name, timeout=600):
    """a deliberately defective variant of a model must be REJECTED by TLC (sensitivity of the model); returns True if it was"""
    r = tlc(module, cfg, os.path.join(wd, "mc_" + name), workers=4, timeout=timeout)
    bad = "is violated" in r["out"] or "Deadlock reached" in r["out"]
    log("  MC %-28s defective variant %s by TLC" % (name, "rejected" if bad else "NOT rejected"))
    return bad


def tlaps(module, wd, timeout=600):
    """TLAPS proof of a module of spec/proofs (unbounded complement of a bounded MC theorem).  The proofs do not depend on the code, so
    the outcome is recorded in the evidence and never changes the verdict of a check."""
    import shutil
    d = os.path.join(wd, "tlaps_" + os.path.basename(module).replace(".tla", ""))
    shutil.rmtree(d, ignore_errors=True)
    os.makedirs(d)
    shutil.copy(os.path.join(SPEC, module), d)
    t = time.time()
    try:
        p = subprocess.run(["tlapm", "--threads", "4", os.path.basename(module)], cwd=d, stdout=subprocess.PIPE, stderr=subprocess.STDOUT, text=True, timeout=timeout)
        out = p.stdout
    except (subprocess.TimeoutExpired, OSError) as e:
        out = "tlapm did not finish: %s" % e
    m = re.search(r"All (\d+) obligations proved", out)
    r = {"module": module, "proved": bool(m), "obligations": int(m.group(1)) if m else 0, "wall_s": round(time.time() - t, 1)}
    if not m:
        r["output_tail"] = out[-400:]
    log("  TLAPS %-26s %s (%d obligations) %.1fs" % (os.path.basename(module), "all proved" if m else "NOT proved", r["obligations"], r["wall_s"]))
    return r


def printed(out, tag):
    """lines printed by PrintT(<<tag, "json">>) -> decoded json objects"""
    res = []
    pre = '<<"%s", "' % tag
    for line in out.splitlines():
        if line.startswith(pre) and line.endswith('">>'):
            s = line[len(pre):-3].replace('\\"', '"').replace("\\\\", "\\")
            res.append(json.loads(s))
    return res


_t1_re = re.compile(r'^<<"T1", (\d+), "([^"]+)">>$')


def judge(trace_module, events_by_segment, wd, name, shards=None, timeout=3000, cfg=None):
    """TLC as the judge of recorded traces.  `events_by_segment`: list of lists of event dicts (a segment is
    self-contained: it starts with the event that (re)sets the carried state).  Returns (t1 list, stats)."""
    cfg = cfg or trace_module.replace(".tla", ".cfg")
    nseg = len(events_by_segment)
    total = sum(len(s) for s in events_by_segment)
    if total == 0:
        return [], {"events": 0, "states": 0, "segments": 0}
    shards = shards or max(1, min(NCPU // 2, (total // 20000) + 1))
    # balance by event count
    buckets = [[] for _ in range(shards)]
    sizes = [0] * shards
    for seg in sorted(events_by_segment, key=len, reverse=True):
        i = sizes.index(min(sizes))
        buckets[i].append(seg)
        sizes[i] += len(seg)
    procs = []
    t = time.time()
    for i, b in enumerate(buckets):
        if not b:
            continue
        flat = [e for seg in b for e in seg]
        path = os.path.join(wd, "%s_shard%d.ndjson" % (name, i))
        with open(path, "w") as f:
            for e in flat:
                f.write(json.dumps(e, separators=(",", ":")) + "\n")
        meta = os.path.join(wd, "judge_%s_%d" % (name, i))
        os.makedirs(meta, exist_ok=True)
        cmd = ["java", "-XX:+UseParallelGC", "-Xmx3g", "-Xss1g", "-cp", TLC_CP, "tlc2.TLC", "-workers", "1",
               "-metadir", meta, "-cleanup", "-noGenerateSpecTE", "-config", cfg, trace_module]
        env = dict(os.environ)
        env["TRACE"] = path
        outp = open(path + ".out", "w")
        p = subprocess.Popen(cmd, cwd=SPEC, env=env, stdout=outp, stderr=subprocess.STDOUT)
        procs.append((p, path, flat, outp))
    t1 = []
    states = 0
    for p, path, flat, outp in procs:
        try:
            p.wait(timeout=timeout)
        except subprocess.TimeoutExpired:
            p.kill()
            raise ToolError("TLC judge timed out on %s" % path)
        outp.close()
        out = open(path + ".out", errors="replace").read()
        m = None
        for m in _stat_re.finditer(out):
            pass
        if "Model checking completed. No error has been found." not in out or "UNCONSUMED" in out or not m:
            sys.stdout.write(out[-3000:] + "\n")
            raise ToolError("TLC judge failed on %s (trace not consumed: tool error, not a verdict)" % path)
        states += int(m.group(2))
        if int(m.group(2)) != len(flat) + 1:
            raise ToolError("TLC judge consumed %s states for %d events on %s" % (m.group(2), len(flat), path))
        for line in out.splitlines():
            mm = _t1_re.match(line.strip())
            if mm:
                ln = int(mm.group(1))
                t1.append({"pred": mm.group(2), "event": flat[ln - 1], "shard": path, "line": ln,
                           "context": context_of(flat, ln - 1)})
    st = {"events": total, "states": states, "segments": nseg, "shards": len(procs), "wall_s": round(time.time() - t, 1)}
    log("  JUDGE %-24s %8d events in %d segments, %d TLC processes, %5.1fs, %d T1" % (
        name, total, nseg, len(procs), st["wall_s"], len(t1)))
    return t1, st


def context_of(flat, i):
    """the segment-opening event preceding event i (the carried state's origin)"""
    j = i
    while j >= 0:
        if flat[j].get("ev") in ("af", "reset", "init"):
            return flat[j]
        j -= 1
    return None


def segments(path, openers=("af",)):
    segs = []
    cur = None
    with open(path) as f:
        for line in f:
            line = line.strip()
            if not line:
                continue
            e = json.loads(line)
            if e.get("ev") in openers or cur is None:
                cur = []
                segs.append(cur)
            cur.append(e)
    return segs


# ----------------------------------------------------------------------------------------------------------------
# findings, evidence, verdict
# ----------------------------------------------------------------------------------------------------------------
def load_known():
    p = os.path.join(VERIF, "known_findings.json")
    if not os.path.exists(p):
        return []
    return json.load(open(p)).get("findings", [])


def attrs_of(t1):
    """flat attribute dict of a T1 record, used to match known findings by call site / input class"""
    e = t1["event"]
    a = {"pred": t1["pred"]}
    for k, v in e.items():
        if isinstance(v, (str, int, bool)):
            a[k] = v
    if "args" in e and isinstance(e["args"], list):
        a["nargs"] = len(e["args"])
        a["multi"] = len(e["args"]) > 1
    if isinstance(e.get("out"), dict):
        for k, v in e["out"].items():
            if isinstance(v, (str, int, bool)):
                a["out." + k] = v
    a.update(t1.get("extra_attrs", {}))
    return a


def match_known(t1, known, pid):
    a = attrs_of(t1)
    for k in known:
        if k.get("status") != "known" or k.get("property") != pid:
            continue
        if all(a.get(f) == v for f, v in k.get("match", {}).items()):
            return k
    return None


class Result:
    def __init__(self, pid, tier, level="model_checking"):
        self.pid = pid
        self.tier = tier
        self.level = level
        self.t0 = time.time()
        self.states = 0
        self.transitions = 0
        self.traces = 0
        self.evaluations = 0
        self.nontrivial = 0
        self.rule = ""
        self.samples = []
        self.mc_runs = []
        self.judge_runs = []
        self.t1 = []
        self.notes = []
        self.drift = 0
        self.extra = {}
        self.exhaustive = None
        self.assumptions = []
        self.wd = workdir(pid)

    def add_mc(self, r):
        self.states += r["distinct"]
        self.transitions += r["generated"]
        self.mc_runs.append({"name": r["name"], "states": r["distinct"], "transitions": r["generated"], "wall_s": r["wall_s"]})

    def add_judge(self, name, t1, st, only_props=None):
        self.states += st.get("states", 0)
        self.transitions += st.get("events", 0)
        self.traces += st.get("segments", 0)
        self.evaluations += st.get("events", 0)
        st = dict(st)
        st["name"] = name
        self.judge_runs.append(st)
        for t in t1:
            prop = t["pred"].split(":")[0]
            if only_props is None or prop in only_props:
                self.t1.append(t)
            else:
                self.notes.append("T1 of another property seen (%s), reported by its own check" % t["pred"])

    def finish(self):
        known = load_known()
        hits = {}
        violations = []
        for t in self.t1:
            k = match_known(t, known, self.pid)
            if k:
                hits.setdefault(k["id"], [k, 0])[1] += 1
            else:
                violations.append(t)
        for kid, (k, n) in hits.items():
            log("KNOWN-FINDING: property=%s %s [%s, %d events]" % (self.pid, k["what_fails"], kid, n))
        rep_dir = os.path.join(self.wd, "replays")
        os.makedirs(rep_dir, exist_ok=True)
        seen = set()
        nrep = 0
        for t in violations:
            sig = json.dumps(attrs_of(t), sort_keys=True)
            h = hashlib.sha1((sig + json.dumps(t.get("context"), sort_keys=True)).encode()).hexdigest()[:12]
            if h in seen:
                continue
            seen.add(h)
            nrep += 1
            if nrep > 25:
                continue
            path = os.path.join(rep_dir, "%s_%s.json" % (self.pid, h))
            with open(path, "w") as f:
                json.dump({"property": self.pid, "pred": t["pred"], "event": t["event"], "context": t.get("context"),
                           "trace_file": t.get("shard"), "trace_line": t.get("line"), "tier": self.tier,
                           "seed": seed(), "replay": t.get("replay")}, f, indent=1)
            log("VIOLATION property=%s replay=%s" % (self.pid, path))
            log("  pred=%s event=%s" % (t["pred"], json.dumps(t["event"])[:400]))
        cov = {
            "states": max(self.states, 0), "transitions": max(self.transitions, 0),
            "traces_validated_against_impl": self.traces,
            "evaluations": self.evaluations, "distinct_nontrivial": self.nontrivial, "rule": self.rule,
            "samples": self.samples[:6] if self.samples else [],
            "mc_runs": self.mc_runs, "judge_runs": self.judge_runs, "model_drift": self.drift,
            "known_findings_hit": {k: v[1] for k, v in hits.items()}, "t1_events": len(self.t1),
            "notes": sorted(set(self.notes))[:20],
        }
        if self.exhaustive is not None:
            cov["exhaustive"] = self.exhaustive
        cov.update(self.extra)
        ev = {"property_id": self.pid, "tier": self.tier, "seed": seed(), "level": self.level, "coverage": cov,
              "assumptions": self.assumptions, "wall_s": round(time.time() - self.t0, 1), "violations": len(violations)}
        os.makedirs(os.path.join(VERIF, "evidence"), exist_ok=True)
        with open(os.path.join(VERIF, "evidence", self.pid + ".json"), "w") as f:
            json.dump(ev, f, indent=1)
        log("%s %s: %d MC states+judged events, %d traces, %d violations, %d known-finding classes, %.0fs" % (
            self.pid, self.tier, self.states, self.traces, len(violations), len(hits), time.time() - self.t0))
        return 1 if violations else 0
