"""Framework generators (labels 1..n).  Small frameworks come from TLC (MCDung REF export); these are the
shape-directed and seeded-random families of DESIGN.md section 5 ("Common vocabulary")."""
import itertools, random, json


def af(n, att, tag=""):
    att = sorted(set((int(a), int(b)) for a, b in att))
    return {"n": n, "att": [[a, b] for a, b in att], "tag": tag}


def write(path, afs):
    with open(path, "w") as f:
        for a in afs:
            f.write(json.dumps(a) + "\n")


def union(a, b, tag=None):
    off = a["n"]
    return af(a["n"] + b["n"], [tuple(p) for p in a["att"]] + [(x + off, y + off) for x, y in b["att"]],
              tag or (a["tag"] + "+" + b["tag"]))


def cycle(k):
    return af(k, [(i, i % k + 1) for i in range(1, k + 1)], "cycle%d" % k)


def chain(k):
    return af(k, [(i, i + 1) for i in range(1, k)], "chain%d" % k)


def funnel(groups, defenders):
    """target 1 attacked by `groups` attackers; attacker i is attacked by defenders[i] fresh-or-shared defenders.
    The hybrid encoder switches to the auxiliary-variable form when the product of defender-set sizes >= 32."""
    att = []
    nxt = 2
    attackers = []
    for _ in range(groups):
        attackers.append(nxt)
        att.append((nxt, 1))
        nxt += 1
    prod = 1
    for i, d in enumerate(defenders):
        prod *= d
        for _ in range(d):
            att.append((nxt, attackers[i]))
            nxt += 1
    return af(nxt - 1, att, "funnel%d" % prod)


def funnel_shared(k, d):
    """k attackers of the target, all attacked by the same d defenders: product d^k with 1+k+d arguments"""
    att = [(1 + i, 1) for i in range(1, k + 1)]
    for j in range(d):
        for i in range(1, k + 1):
            att.append((1 + k + 1 + j, 1 + i))
    return af(1 + k + d, att, "funnelS%d" % (d ** k))


def funnel_pool(pool, sizes):
    """target 1; attacker i (2..k+1) is attacked by the first sizes[i] defenders of a shared pool"""
    k = len(sizes)
    att = [(1 + i, 1) for i in range(1, k + 1)]
    prod = 1
    for i, sz in enumerate(sizes):
        prod *= sz
        for j in range(sz):
            att.append((1 + k + 1 + j, 2 + i))
    return af(1 + k + pool, att, "funnelP%d" % prod)


def shaped():
    res = [af(0, [], "empty"), af(1, [], "single"), af(1, [(1, 1)], "selfloop"), af(4, [], "isolated4")]
    res += [cycle(k) for k in (2, 3, 4, 5, 6, 7)]
    res += [chain(k) for k in (2, 3, 5, 8)]
    res.append(union(cycle(3), cycle(2)))
    res.append(union(cycle(2), cycle(2)))
    res.append(union(cycle(3), chain(3)))
    res.append(union(union(cycle(2), chain(2)), af(1, [(1, 1)], "self")))
    res.append(union(cycle(2), af(2, [(1, 2)], "edge")))
    # self-attacker inside a component
    res.append(af(4, [(1, 2), (2, 1), (1, 3), (2, 3), (3, 3), (3, 4)], "selfin"))
    res.append(af(3, [(1, 1), (1, 2), (2, 3)], "selfhead"))
    res.append(af(5, [(1, 2), (2, 1), (2, 3), (3, 4), (4, 5), (5, 3)], "evenodd"))
    # x in every preferred extension but not grounded, plus an independent choice in the same component
    res.append(af(7, [(1, 2), (2, 1), (1, 3), (2, 3), (3, 4), (5, 6), (6, 5), (5, 7), (6, 7), (7, 7), (7, 3)], "allpr"))
    # a choice (a<->b) whose both sides defeat c, followed by a chain: arguments in every preferred extension that are not ideal
    for k in (1, 2, 3, 4, 5):
        res.append(af(3 + k, [(1, 2), (2, 1), (1, 3), (2, 3)] + [(2 + i, 3 + i) for i in range(1, k + 1)], "choicechain%d" % k))
    res.append(af(8, [(1, 2), (2, 1), (1, 3), (2, 3), (3, 4), (4, 5), (5, 6), (6, 7), (7, 8), (8, 7)], "choicechain_cycle"))
    # several incomparable maximal sets
    res.append(af(6, [(1, 2), (2, 1), (3, 4), (4, 3), (5, 6), (6, 5), (1, 3), (3, 5)], "threechoices"))
    res.append(af(6, [(1, 2), (2, 1), (2, 3), (3, 4), (4, 2), (4, 5), (5, 6), (6, 5)], "mixed6"))
    # stable / semi-stable / stage differ
    res.append(af(4, [(1, 2), (2, 1), (2, 3), (3, 3), (3, 4)], "sstdiff"))
    res.append(af(5, [(1, 2), (2, 3), (3, 1), (3, 4), (4, 5), (5, 4)], "oddfeeds"))
    # funnels around the hybrid threshold (32): product of the defender-set sizes 16, 27, 32, 36, 64
    for k, d in ((4, 2), (5, 2), (6, 2), (3, 3), (2, 6)):
        res.append(funnel_shared(k, d))
    for sizes in ([4, 4, 2], [4, 4, 1], [3, 3, 4], [2, 4, 4], [4, 2, 4], [4, 4, 4]):
        res.append(funnel_pool(4, sizes))
    # nested attacker sets of the attackers (sizes 2,4,8: product 64; 2,3,6: 36; 3,3,9: 81), one component of 10-13 arguments
    for pool, sizes in ((8, [2, 4, 8]), (8, [8, 4, 2]), (6, [2, 3, 6]), (9, [3, 3, 9]), (8, [4, 4, 4, 1]), (8, [2, 2, 4, 8])):
        res.append(funnel_pool(pool, sizes))
    res.append(funnel_pool(5, [5, 5, 1]))
    res.append(funnel_pool(5, [5, 5, 2]))
    res.append(union(funnel_shared(5, 2), funnel_shared(5, 2), "twofunnels32"))
    res.append(union(funnel_shared(5, 2), funnel_shared(4, 2), "funnel32+16"))
    res.append(union(funnel_pool(4, [4, 4, 2]), funnel_pool(4, [2, 4, 4]), "twopoolfunnels"))
    res.append(union(cycle(2), funnel_shared(5, 2), "cycle+funnel32"))
    f = funnel_shared(5, 2)
    # funnel whose defenders are in an even cycle (defence is a choice)
    res.append(af(f["n"], [tuple(p) for p in f["att"]] + [(7, 8), (8, 7)], "funnelchoice"))
    res.append(af(f["n"], [tuple(p) for p in f["att"]] + [(7, 8), (8, 7), (1, 7)], "funnelfeedback"))
    # twin targets behind a choice: a<->b both attack b1..b5, which attack x1 and x2 (product 32 each); x_i -> z_i -> y.  Few complete sets,
    # but many admissible non-complete ones on the way up
    for twins in (1, 2):
        att = [(1, 2), (2, 1)]
        bs = list(range(3, 8))
        att += [(1, b) for b in bs] + [(2, b) for b in bs]
        nxt = 8
        zs = []
        for _ in range(twins):
            x, z = nxt, nxt + 1
            nxt += 2
            att += [(b, x) for b in bs] + [(x, z)]
            zs.append(z)
        y = nxt
        att += [(z, y) for z in zs]
        res.append(af(y, att, "funneltwins%d" % twins))
    return res


def gadget_unions(seed=1, max_n=8, triples=70):
    """disjoint unions of two or three small gadgets (an even cycle, a choice with a self-attacker, a floating argument behind a choice,
    chains, an odd cycle, a self-attacker, an isolated argument, ...): frameworks with several components on which the semantics disagree
    (ideal vs. skeptical preferred, stable missing in one component, ...), for list queries and the composition over components"""
    g = [cycle(2),
         af(2, [(1, 2), (2, 1), (2, 2)], "choice_selfb"),
         af(4, [(1, 2), (2, 1), (1, 3), (2, 3), (3, 4)], "floating"),
         af(5, [(1, 2), (2, 1), (1, 3), (2, 3), (3, 4), (4, 5)], "floating_out"),
         af(1, [(1, 1)], "self"),
         chain(2), chain(3), cycle(3),
         af(1, [], "iso"),
         af(3, [(1, 2), (2, 1), (1, 3)], "choice_hits"),
         af(3, [(1, 2), (2, 1), (2, 3), (3, 3)], "sst_choice")]
    res = []
    for i in range(len(g)):
        for j in range(i, len(g)):
            u = union(g[i], g[j])
            if u["n"] <= max_n:
                res.append(u)
    rng = random.Random(seed)
    seen = set()
    tries = 0
    while len(seen) < triples and tries < 2000:
        tries += 1
        t = tuple(sorted(rng.sample(range(len(g)), 3)))
        if t in seen or sum(g[k]["n"] for k in t) > max_n:
            continue
        seen.add(t)
        u = union(union(g[t[0]], g[t[1]]), g[t[2]])
        # now and then one attack between two of the parts (the parts merge into one component)
        if rng.random() < 0.3:
            u = af(u["n"], [tuple(p) for p in u["att"]] + [(rng.randint(1, u["n"]), rng.randint(1, u["n"]))], u["tag"] + "+link")
        res.append(u)
    # cascades below a choice: a<->b both attack g; a random DAG of 3-5 arguments hangs from g (each attacked by one or two earlier ones);
    # labels in random order (ids / declaration order vary).  Arguments in every preferred extension that are not ideal, in cascades
    # whose pruning order matters.
    for _ in range(triples):
        k = rng.randint(3, 5)
        nodes = ["a", "b", "g"] + ["n%d" % i for i in range(k)]
        att = [("a", "b"), ("b", "a"), ("a", "g"), ("b", "g")]
        for i in range(k):
            for src in rng.sample(nodes[2:3 + i], rng.randint(1, min(2, 1 + i))):
                att.append((src, "n%d" % i))
        perm = list(range(1, len(nodes) + 1))
        rng.shuffle(perm)
        lab = dict(zip(nodes, perm))
        res.append(af(len(nodes), [(lab[x], lab[y]) for x, y in att], "cascade%d" % k))
    return res


def rand_af(rng, n, p_att, p_self=0.1):
    att = []
    for a in range(1, n + 1):
        for b in range(1, n + 1):
            if a == b:
                if rng.random() < p_self:
                    att.append((a, b))
            elif rng.random() < p_att:
                att.append((a, b))
    return af(n, att, "rand%d" % n)


def rand_multi(rng, sizes, p_att):
    res = None
    for s in sizes:
        c = rand_af(rng, s, p_att)
        res = c if res is None else union(res, c, "randmulti")
    return res


def random_afs(seed, count, nlo, nhi):
    rng = random.Random(seed)
    res = []
    for i in range(count):
        n = rng.randint(nlo, nhi)
        mode = rng.random()
        if mode < 0.55:
            res.append(rand_af(rng, n, rng.choice([0.12, 0.2, 0.3, 0.45]), rng.choice([0.0, 0.1, 0.25])))
        else:
            k = rng.randint(2, 3)
            sizes = [max(1, n // k)] * k
            res.append(rand_multi(rng, sizes, rng.choice([0.25, 0.4, 0.6])))
    return res


def iso4_classes():
    """all labelled digraphs with loops on 4 arguments up to isomorphism (3044 classes), as canonical representatives"""
    pairs = [(a, b) for a in range(4) for b in range(4)]
    perms = list(itertools.permutations(range(4)))
    maps = []
    for p in perms:
        maps.append([pairs.index((p[a], p[b])) for (a, b) in pairs])
    seen = set()
    reps = []
    for mask in range(1 << 16):
        if mask in seen:
            continue
        orbit = set()
        for m in maps:
            x = 0
            for i in range(16):
                if mask >> i & 1:
                    x |= 1 << m[i]
            orbit.add(x)
        seen |= orbit
        reps.append(mask)
    res = []
    for mask in reps:
        att = [(pairs[i][0] + 1, pairs[i][1] + 1) for i in range(16) if mask >> i & 1]
        res.append(af(4, att, "iso4"))
    return res


def relabel(a, rng):
    perm = list(range(1, a["n"] + 1))
    rng.shuffle(perm)
    return af(a["n"], [(perm[x - 1], perm[y - 1]) for x, y in a["att"]], a["tag"] + "~")


def iso4_sample(seed, count):
    rng = random.Random(seed)
    allc = iso4_classes()
    if count >= len(allc):
        sel = allc
    else:
        sel = rng.sample(allc, count)
    return [relabel(a, rng) for a in sel]


def grounded_mix(seed, count, nlo=5, nhi=8):
    """frameworks with a non-empty grounded part that defeats arguments attacking a non-grounded part made of even cycles
    and random attacks (the shape on which acceptance/defeat propagation with counters is delicate)"""
    rng = random.Random(seed)
    res = []
    for _ in range(count):
        n = rng.randint(nlo, nhi)
        att = set()
        nsrc = rng.randint(1, 2)
        srcs = list(range(1, nsrc + 1))
        rest = list(range(nsrc + 1, n + 1))
        # sources defeat one or two arguments
        defeated = rng.sample(rest, min(len(rest), rng.randint(1, 2)))
        for d in defeated:
            att.add((rng.choice(srcs), d))
        free = [x for x in rest if x not in defeated]
        # even cycles among the free arguments
        rng.shuffle(free)
        for i in range(0, len(free) - 1, 2):
            att.add((free[i], free[i + 1]))
            att.add((free[i + 1], free[i]))
        # defeated arguments attack free ones; free ones attack defeated ones and each other
        for d in defeated:
            for t in rng.sample(free, min(len(free), rng.randint(1, 2))) if free else []:
                att.add((d, t))
        for _ in range(rng.randint(1, n)):
            a = rng.choice(free) if free else rng.choice(rest)
            b = rng.choice(rest)
            if b not in srcs:
                att.add((a, b))
        perm = list(range(1, n + 1))
        rng.shuffle(perm)
        res.append(af(n, [(perm[a - 1], perm[b - 1]) for a, b in att], "groundedmix"))
    return res


def large_afs(seed, count, nlo, nhi):
    """sparse random graphs, layered graphs and unions of cycles with 20-300 arguments (C11)"""
    rng = random.Random(seed)
    res = []
    for i in range(count):
        n = rng.randint(nlo, nhi)
        mode = i % 3
        att = set()
        if mode == 0:      # sparse random, average out-degree ~1.5, a few self-attacks
            for a in range(1, n + 1):
                for _ in range(rng.choice([0, 1, 1, 2, 3])):
                    att.add((a, rng.randint(1, n)))
                if rng.random() < 0.03:
                    att.add((a, a))
        elif mode == 1:    # layered: attacks go to the next layers, with some back edges
            layers = rng.randint(3, 8)
            lay = [rng.randrange(layers) for _ in range(n)]
            for a in range(1, n + 1):
                for _ in range(rng.choice([1, 1, 2])):
                    b = rng.randint(1, n)
                    if lay[b - 1] > lay[a - 1] or rng.random() < 0.08:
                        att.add((a, b))
        else:              # union of cycles of various lengths plus chords
            a = 1
            while a <= n:
                k = min(rng.randint(2, 7), n - a + 1)
                for j in range(k):
                    att.add((a + j, a + (j + 1) % k))
                if k >= 4 and rng.random() < 0.5:
                    att.add((a, a + 2))
                a += k
            for _ in range(n // 10):
                att.add((rng.randint(1, n), rng.randint(1, n)))
        res.append(af(n, att, "large%d" % mode))
    return res


def mid_afs(seed, count, nlo=10, nhi=13):
    """single-component-ish frameworks of 10-13 arguments: still judged by TLC with the full families (size-dependent code paths:
    variable layouts, table sizes, thresholds), sparse enough for the families to stay small"""
    rng = random.Random(seed)
    res = []
    for i in range(count):
        n = rng.randint(nlo, nhi)
        att = set()
        # a spanning chain with random direction keeps it (weakly) connected
        order = list(range(1, n + 1))
        rng.shuffle(order)
        for a, b in zip(order, order[1:]):
            att.add((a, b) if rng.random() < 0.5 else (b, a))
        for _ in range(rng.randint(n // 2, n + 3)):
            att.add((rng.randint(1, n), rng.randint(1, n)))
        if rng.random() < 0.3:
            x = rng.randint(1, n)
            att.add((x, x))
        res.append(af(n, att, "mid%d" % n))
    return res


def grounded_reduct(a):
    """(grounded extension, defeated arguments, components of the framework restricted to the undecided arguments) -- the same computation
    as Meta!GroundedFast / Reduct, used here only to SELECT frameworks the judge can afford (the judge recomputes everything itself)"""
    n = a["n"]
    atk = {i: set() for i in range(1, n + 1)}
    out = {i: set() for i in range(1, n + 1)}
    for x, y in a["att"]:
        atk[y].add(x)
        out[x].add(y)
    g, dead = set(), set()
    changed = True
    while changed:
        changed = False
        for i in range(1, n + 1):
            if i not in g and i not in dead and atk[i] <= dead:
                g.add(i)
                dead |= out[i]
                changed = True
    und = [i for i in range(1, n + 1) if i not in g and i not in dead]
    parent = {i: i for i in und}

    def find(x):
        while parent[x] != x:
            parent[x] = parent[parent[x]]
            x = parent[x]
        return x
    us = set(und)
    for x, y in a["att"]:
        if x in us and y in us:
            parent[find(x)] = find(y)
    comps = {}
    for i in und:
        comps.setdefault(find(i), []).append(i)
    return g, dead, list(comps.values())


def gadget_soups(seed, count, nlo, nhi):
    """many small gadgets (even / odd cycles, choices with floating arguments, chains) side by side, a few unattacked sources that
    defeat some of their members, a few links: a non-trivial grounded extension AND a non-trivial undecided part"""
    rng = random.Random(seed)
    g = [cycle(2), cycle(3), cycle(4), cycle(5), chain(3), af(2, [(1, 2), (2, 1), (2, 2)], "cs"),
         af(4, [(1, 2), (2, 1), (1, 3), (2, 3), (3, 4)], "fl"), af(3, [(1, 2), (2, 1), (2, 3), (3, 3)], "ss"),
         af(5, [(1, 2), (2, 1), (2, 3), (3, 4), (4, 5), (5, 3)], "eo"), af(1, [(1, 1)], "self")]
    res = []
    for _ in range(count):
        n_target = rng.randint(nlo, nhi)
        a = af(0, [], "soup")
        while a["n"] < n_target:
            a = union(a, rng.choice(g), "soup")
        att = [tuple(p) for p in a["att"]]
        n = a["n"]
        for _ in range(rng.randint(1, max(1, n // 8))):      # unattacked sources
            n += 1
            for _ in range(rng.randint(1, 3)):
                att.append((n, rng.randint(1, a["n"])))
        for _ in range(rng.randint(0, n // 12)):               # links between gadgets
            att.append((rng.randint(1, a["n"]), rng.randint(1, a["n"])))
        res.append(af(n, att, "soup"))
    return res


def reducible_large(seed, count, nlo, nhi, maxc=9):
    """frameworks of nlo..nhi arguments (sparse random, layered, unions of cycles) whose undecided part -- after the grounded extension and what
    it defeats are set aside -- has components of at most maxc arguments: judged exactly by TLC through the grounded reduct"""
    res = []
    k = 0
    while len(res) < count and k < 60:
        cands = large_afs(seed * 1000 + k, count, nlo, nhi) + gadget_soups(seed * 1000 + k, count, nlo, nhi)
        random.Random(seed + k).shuffle(cands)
        for a in cands:
            g, dead, comps = grounded_reduct(a)
            if all(len(c) <= maxc for c in comps) and len(comps) <= 12 and (g or comps):
                a["tag"] = a["tag"] + "_reducible"
                res.append(a)
                if len(res) >= count:
                    break
        k += 1
    return res


def big_funnels():
    """one argument t whose attackers b1..bk are each attacked by d shared unattacked defenders (the auxiliary-free encoding expands d^k
    clauses for t: 2^16, 2^17, 3^10, 3^11 -- around and above 65 536), in variants where one more attacker, declared last, is left
    undefended / defended by a choice / self-attacking.  The grounded extension decides almost everything: judged through the reduct."""
    res = []
    for k, d in ((16, 2), (17, 2), (10, 3), (11, 3)):
        for variant in ("plain", "late_undefended", "late_choice", "late_selfatt"):
            t = 1
            defenders = list(range(2, 2 + d))
            bs = list(range(2 + d, 2 + d + k))
            att = [(b, t) for b in bs] + [(c, b) for c in defenders for b in bs]
            n = 1 + d + k
            if variant != "plain":
                last = n + 1          # the attacker with the largest label: its attack on t comes last in every presentation
                att.append((last, t))
                n += 1
                if variant == "late_undefended":
                    s1 = n + 1
                    att += [(s1, s1), (s1, last)]
                    n += 1
                elif variant == "late_choice":
                    x, y = n + 1, n + 2
                    att += [(x, y), (y, x), (x, last)]
                    n += 2
                else:
                    att.append((last, last))
            res.append(af(n, att, "bigfunnel_%d_%d_%s" % (k, d, variant)))
    return res


def many_sources(seed, count):
    """frameworks with 64-200 unattacked arguments spread over the id space; arguments defended only by the JOINT action of two sources
    that are far apart, followed by chains; a few even cycles (undecided part).  Everything but the cycles is decided by the grounded
    extension: the reduct is small whatever the size."""
    rng = random.Random(seed)
    res = []
    for i in range(count):
        n_src = [64, 65, 66, 70, 129, 200][i % 6]
        groups = rng.randint(8, 25)
        cycles = rng.randint(0, 4)
        n = n_src + groups * 5 + cycles * 2
        labels = list(range(1, n + 1))
        rng.shuffle(labels)
        it = iter(labels)
        src = [next(it) for _ in range(n_src)]
        att = []
        for _ in range(groups):
            b1, b2, x, y, z = (next(it) for _ in range(5))
            p, q = rng.sample(src, 2)
            att += [(p, b1), (q, b2), (b1, x), (b2, x), (x, y), (y, z)]
            if rng.random() < 0.3:
                att.append((z, rng.choice(src + [x])))      # attacks on grounded arguments from defeated / defended ones
        for _ in range(cycles):
            a, b = next(it), next(it)
            att += [(a, b), (b, a)]
            if rng.random() < 0.5:
                att.append((rng.choice(src), a))
        res.append(af(n, att, "manysrc#big"))
    return res
