"""One decision procedure per property (DESIGN.md section 5)."""
import json, os, random, sys, time
import vlib, afgen
import cli as clilib
from vlib import Result, log, seed

CHECKS = {}


def check(pid):
    def deco(f):
        CHECKS[pid] = f
        return f
    return deco


# ----------------------------------------------------------------------------------------------------------------
# shared: frameworks from the specification (MCDung REF export) and the shaped / random families
# ----------------------------------------------------------------------------------------------------------------
def mcdung(res, n=3):
    """exhaustive theorems over all frameworks <= n arguments; returns the exported frameworks (behaviours to replay)"""
    cfg = os.path.join(res.wd, "MCDung_%d.cfg" % n)
    base = open(os.path.join(vlib.SPEC, "MCDung.cfg")).read().replace("CONSTANT N = 3", "CONSTANT N = %d" % n)
    open(cfg, "w").write(base)
    r = vlib.mc("MCDung.tla", cfg=cfg, wd=res.wd, name="MCDung_N%d" % n, timeout=3000)
    res.add_mc(r)
    afs = vlib.printed(r["out"], "REF")
    for a in afs:
        a["tag"] = "ref%d" % a["n"]
    return afs


def n_components(a):
    """number of weakly connected components of a framework description"""
    parent = list(range(a["n"] + 1))

    def find(x):
        while parent[x] != x:
            parent[x] = parent[parent[x]]
            x = parent[x]
        return x
    for x, y in a["att"]:
        parent[find(x)] = find(y)
    return len(set(find(i) for i in range(1, a["n"] + 1)))


def af_sets(res, tier, want_large=True):
    """returns dict name -> list of AFs"""
    s = seed()
    sets = {"ref3": mcdung(res, 3)}
    if tier == "thorough":
        sets["iso4"] = afgen.iso4_sample(s, 100000)
        sets["rand"] = afgen.random_afs(s, 1500, 5, 9)
    else:
        sets["iso4"] = afgen.iso4_sample(s, 400)
        sets["rand"] = afgen.random_afs(s, 250, 5, 8)
    sets["shaped"] = afgen.shaped()
    sets["gadgets"] = afgen.gadget_unions(s, 8, 140 if tier == "thorough" else 70)
    # judged exactly through the grounded reduct (Meta!FamByReduct): the undecided part has small components whatever the size
    sets["bigfunnels"] = afgen.big_funnels()
    sets["reducible"] = afgen.reducible_large(s, 160 if tier == "thorough" else 40, 20, 90) + afgen.reducible_large(s + 1, 40 if tier == "thorough" else 10, 91, 300)
    sets["mid"] = afgen.mid_afs(s, 120 if tier == "thorough" else 30)
    return sets


def run_static(res, name, afs, **opts):
    """harness -> events -> segments"""
    afile = os.path.join(res.wd, name + ".afs.jsonl")
    out = os.path.join(res.wd, name + ".ndjson")
    afgen.write(afile, afs)
    args = ["static", "--afs", afile, "--out", out, "--seed", seed(), "--threads", vlib.NCPU]
    for k, v in opts.items():
        args += ["--" + k, v]
    t = time.time()
    try:
        vlib.vh(args, timeout=1800)
        segs = vlib.segments(out, openers=("af",))
    except vlib.HarnessDied as ex:
        # the code under test took the whole process down (runaway allocation, abort, endless loop): that is data, not a tool
        # error -- isolate the frameworks on which it happens and record them as queries that did not return
        log("  NOTE %s: isolating the frameworks on which the process dies" % ex)
        segs = isolate_static(res, name, afs, opts)
    log("  RUN %-26s %6d frameworks -> %8d events  %5.1fs" % (name, len(afs), sum(len(s) for s in segs), time.time() - t))
    return segs


def isolate_static(res, name, afs, opts, depth=0, budget=None):
    """bisection: runs the harness on halves of the framework list in separate processes"""
    if budget is None:
        budget = [40]
    segs = []
    if not afs:
        return segs
    afile = os.path.join(res.wd, "%s.iso%d.afs.jsonl" % (name, depth))
    out = os.path.join(res.wd, "%s.iso%d.ndjson" % (name, depth))
    afgen.write(afile, afs)
    args = ["static", "--afs", afile, "--out", out, "--seed", seed(), "--threads", vlib.NCPU]
    for k, v in opts.items():
        args += ["--" + k, v]
    try:
        vlib.vh(args, timeout=120 if len(afs) == 1 else 900)
        return vlib.segments(out, openers=("af",))
    except vlib.HarnessDied:
        pass
    if len(afs) == 1 or budget[0] <= 0:
        a = afs[0]
        kinds = str(opts.get("kinds", "SE")).split(",")
        sems = str(opts.get("sems", "GR,CO,PR,ST,SST,STG,ID")).split(",")
        seg = [{"ev": "af", "idx": 0, "tag": a.get("tag", ""), "present": "compact", "n": a["n"], "args": list(range(1, a["n"] + 1)),
                "ids": [[i, i - 1] for i in range(1, a["n"] + 1)], "att": a["att"], "sems": sems}]
        out_ = {"capped": False, "ext": [], "faulted": False, "has_ext": False, "panic": "process died (killed, aborted or timed out) while answering queries on this framework", "st": "none"}
        for k in kinds:
            seg.append({"ev": "q", "sem": sems[0], "kind": k, "args": [] if k == "SE" else [1], "cert": False, "encs": ["?"], "oracle": "?", "backend": "?",
                        "out": out_, "mult": 1, "runs": 1, "exh": False, "isolated": True})
        return [seg]
    budget[0] -= 1
    mid = len(afs) // 2
    return isolate_static(res, name, afs[:mid], opts, depth + 1, budget) + isolate_static(res, name, afs[mid:], opts, depth + 1, budget)


def static_plan(tier):
    """(af set name, presentations, oracle, budget)"""
    if tier == "thorough":
        return [("ref3", "compact,sparse,dup", "dfs", 400), ("iso4", "compact,sparse", "dfs", 200),
                ("shaped", "compact,sparse,dup", "dfs", 24), ("rand", "compact,sparse", "dfs", 24),
                ("rand", "dup", "real", 1), ("mid", "compact,sparse", "dfs", 4), ("rand", "padded", "dfs", 4), ("iso4", "padded", "real", 1),
                ("gadgets", "compact,sparse", "dfs", 12), ("bigfunnels", "compact,dup", "dfs", 2), ("reducible", "compact,sparse,dup", "dfs", 4)]
    return [("ref3", "compact,sparse,dup", "dfs", 200), ("iso4", "compact,sparse", "dfs", 64),
            ("shaped", "compact,sparse", "dfs", 8), ("rand", "compact,sparse", "dfs", 6), ("mid", "compact,sparse", "dfs", 2),
            ("rand", "padded", "dfs", 2), ("gadgets", "compact", "dfs", 4), ("bigfunnels", "compact", "real", 1), ("reducible", "compact,sparse", "dfs", 2)]


def nontrivial_static(segs, res, rule_kind):
    """counts distinct non-trivial cases among judged events"""
    seen = set()
    for seg in segs:
        afe = seg[0]
        key_af = (afe.get("n"), json.dumps(afe.get("att")), afe.get("present"))
        for e in seg[1:]:
            if e.get("ev") != "q":
                continue
            o = e["out"]
            nt = False
            if rule_kind == "SE":
                nt = len(o["ext"]) >= 1 and len(afe.get("att", [])) >= 2
            elif rule_kind == "ACC":
                nt = len(afe.get("att", [])) >= 2 and afe.get("n", 0) >= 3
            elif rule_kind == "CERT":
                nt = o["has_ext"] and afe.get("n", 0) >= 3
            elif rule_kind == "LIST":
                nt = len(set(e["args"])) >= 2
            if nt:
                seen.add((key_af, e["sem"], e["kind"], tuple(e["args"]), e["cert"], json.dumps(o["ext"]), o["st"]))
    return len(seen)


def static_check(pid, tier, kinds, cert, rule_kind, rule, sems="GR,CO,PR,ST,SST,STG,ID", lists=1, plan=None, extra=None, mc=("PR", "ID", "Range", "Compose"), after=None):
    res = Result(pid, tier)
    vlib.build_harness()
    # (A) design level: the search procedures are correct for every framework <= 3 arguments and every SAT-oracle schedule
    static_mc(res, tier, mc)
    sets = af_sets(res, tier)
    allsegs = []
    for (sname, present, oracle, budget) in (plan or static_plan(tier)):
        afs = sets[sname]
        if lists > 1 and sname != "reducible":
            afs = [a for a in afs if a["n"] <= (4 if lists >= 3 else (7 if sname == "gadgets" else 6))]
        opts = dict(sems=sems, kinds=kinds, cert=cert, present=present, oracle=oracle, budget=budget, lists=lists,
                    cap=300 if sname in ("ref3", "iso4") else (1500 if sname == "mid" else 400))   # SAT calls per query before it is declared non-terminating (legitimate maxima observed: 15 / 57 / 39)
        if sname in ("bigfunnels", "reducible"):
            # stage extensions are not reached by the reduct: the whole components would have to be enumerated
            opts["sems"] = ",".join(x for x in sems.split(",") if x != "STG")
            opts["cap"] = 1500
            if lists > 1:
                # lists on frameworks of 20-300 arguments (merged components of 50+ arguments): a seeded sample of 60 lists of <= 2 arguments,
                # half of them pairs of mutual attackers
                opts["lists"] = 2
                opts["listsample"] = 60
        if extra:
            opts.update(extra)
        rname = "%s_%s_%s_%s" % (pid, sname, present.replace(",", "+")[:14], oracle)
        segs = run_static(res, rname, afs, **opts)
        t1, st = vlib.judge("TraceStatic.tla", segs, res.wd, rname, shards=8 if sname in ("mid", "shaped") else None)
        res.add_judge(sname, t1, st, only_props={pid})
        allsegs += segs
    if "DC" in kinds or "DS" in kinds:
        # the same queries put, in sequences with repetitions, to solver objects that are reused (stale per-object state shows only then)
        want = [k for k in ("DC", "DS") if k in kinds]
        pool = random.Random(seed()).sample(sets["ref3"], 120) + sets["shaped"] + sets["rand"][:120] + sets["mid"][:10]
        afile = os.path.join(res.wd, "seq.afs.jsonl")
        out = os.path.join(res.wd, "seq.ndjson")
        afgen.write(afile, pool)
        vlib.vh(["seq", "--afs", afile, "--out", out, "--present", "compact", "--backends", "cadical", "--seed", seed(), "--emitq", "yes",
                 "--sems", sems, "--threads", vlib.NCPU])
        segs = [[e for e in s if e["ev"] in ("af",) or (e["ev"] == "q" and e["kind"] in want)] for s in vlib.segments(out, openers=("af",))]
        t1, st = vlib.judge("TraceStatic.tla", segs, res.wd, pid + "_seq", shards=8)
        res.add_judge("reused_solver_objects", t1, st, only_props={pid})
        allsegs += segs
    if after:
        after(res, sets)
    res.nontrivial = nontrivial_static(allsegs, res, rule_kind)
    res.rule = rule + ("; framework sets: all <= 3 arguments, isomorphism classes of 4, shaped (cycles, chains, funnels around the hybrid threshold, "
                       "choice chains), random 5-8(9), mid 10-13, unions of gadgets, frameworks padded with sinks (components of 40-500 arguments, core ids "
                       "spread), big funnels (d^k around 2^16) and sparse / layered / gadget-soup frameworks of 20-300 arguments judged through the "
                       "grounded reduct; presentations compact / sparse ids / duplicated attack lines; every encoder; depth-first exploration of the "
                       "SAT-model choices; query sequences on reused solver objects")
    for seg in allsegs[-3:]:
        qs = [e for e in seg if e.get("ev") == "q"]
        if qs:
            res.samples.append({"framework": {k: seg[0][k] for k in ("n", "att", "present", "ids")}, "event": qs[len(qs) // 2]})
    res.exhaustive = False
    res.extra["exhaustive_part"] = "all labelled frameworks with <= 3 arguments x presentations x encoders x every SAT-model choice (depth-first oracle exploration)"
    res.assumptions = ["Dung.tla transcribes the textbook semantics (cross-checked by MCDung theorems)",
                       "family of a framework = product of the families of its weakly connected components (MCDung invariant Product)",
                       "ObsSat/TracingEncoder wrappers (harness/src/obs.rs) forward faithfully to CaDiCaL and the real encoders"]
    return res.finish()


def _printed_answers(pid, kind):
    """the command-line observation point of C01 / C02 / C03: `crustabri solve -p <kind>-<sem>` and the ICCMA'23 wrapper, every encoding, problem
    names in upper / lower / mixed case, both file formats; small frameworks judged exactly, 9-13 argument and grounded-reducible ones through the reduct"""
    def run(res, sets):
        thorough = res.tier == "thorough"
        bindir = vlib.build_repo_bins()
        bins = {"crustabri": os.path.join(bindir, "crustabri"), "iccma23": os.path.join(bindir, "crustabri_iccma23")}
        rng = random.Random(seed() + 9)
        invs = [{"bin": b, "file": "good", "fmt": fmt, "pclass": "valid", "kind": kind, "argc": "absent" if kind == "SE" else "valid", "enc": enc,
                 "cert": cert, "log": "off"}
                for (b, fmt) in (("crustabri", "iccma"), ("crustabri", "apx"), ("iccma23", "iccma"))
                for enc in (("unset", "aux_var", "exp", "hybrid") if b == "crustabri" else ("unset",))
                for cert in ((False, True) if b == "crustabri" else (True,))]
        pool = [a for a in sets["ref3"] if a["n"] == 3] + [a for a in sets["shaped"] if 2 <= a["n"] <= 9] + [a for a in sets["rand"] if a["n"] <= 7] + sets["gadgets"][:40]
        rng.shuffle(pool)
        afs = pool[:300 if thorough else 120]
        todo = invs * (len(afs) * (10 if thorough else 8) // len(invs) + 1)
        t = time.time()
        segs, used = clilib.run_all(todo, afs, res.wd, bins, seed() + 9, len(todo) // len(afs) + 1, subdir="clifiles_answers")
        t1, st = vlib.judge("TraceStatic.tla", segs, res.wd, "cli_answers", shards=8)
        res.add_judge("printed_answers", t1, st, only_props={pid})
        mafs = sets["reducible"][:(60 if thorough else 15)] + afgen.random_afs(seed() + 10, 200 if thorough else 50, 9, 13)
        todo2 = invs * (len(mafs) * (6 if thorough else 4) // len(invs) + 1)
        segs2, used2 = clilib.run_all(todo2, mafs, res.wd, bins, seed() + 10, len(todo2) // len(mafs) + 1, sems=["GR", "CO", "PR", "ST", "SST", "ID"], subdir="clifiles_answers_mid")
        t1, st = vlib.judge("TraceStatic.tla", segs2, res.wd, "cli_answers_mid", shards=8)
        res.add_judge("printed_answers_medium_frameworks", t1, st, only_props={pid})
        log("  RUN cli answers: %d + %d invocations %.1fs" % (used, used2, time.time() - t))
    return run


@check("C01")
def c01(tier):
    return static_check("C01", tier, "SE", "no", "SE", after=_printed_answers("C01", "SE"), rule=
                        "one event per distinct (framework presentation, semantics, encoder group, outcome) over all oracle schedules; "
                        "non-trivial = non-empty extension of a framework with >= 2 attacks")


@check("C02")
def c02(tier):
    return static_check("C02", tier, "DC", "both", "ACC", mc=("Range", "Compose"), after=_printed_answers("C02", "DC"), rule=
                        "one event per distinct (framework presentation, semantics, argument, certificate flag, outcome); "
                        "non-trivial = framework with >= 3 arguments and >= 2 attacks")


@check("C03")
def c03(tier):
    return static_check("C03", tier, "DS", "both", "ACC", after=_printed_answers("C03", "DS"), rule=
                        "one event per distinct (framework presentation, semantics, argument, certificate flag, outcome); "
                        "non-trivial = framework with >= 3 arguments and >= 2 attacks")


def _printed_certificates(res, sets):
    """C04's second observation point: the `w` line printed by the binaries (small frameworks judged exactly; instances whose
    certificates have > 1000 members -- several KiB of text -- judged by polynomial necessary conditions)"""
    thorough = res.tier == "thorough"
    bindir = vlib.build_repo_bins()
    bins = {"crustabri": os.path.join(bindir, "crustabri"), "iccma23": os.path.join(bindir, "crustabri_iccma23")}
    rng = random.Random(seed() + 4)
    invs = [{"bin": b, "file": "good", "fmt": fmt, "pclass": "valid", "kind": kind, "argc": "valid", "enc": enc, "cert": True, "log": "off"}
            for (b, fmt) in (("crustabri", "iccma"), ("crustabri", "apx"), ("iccma23", "iccma")) for kind in ("DC", "DS")
            for enc in (("unset", "aux_var", "exp", "hybrid") if b == "crustabri" else ("unset",))]
    pool = [a for a in sets["ref3"] if a["n"] == 3] + [a for a in sets["shaped"] if 2 <= a["n"] <= 9] + [a for a in sets["rand"] if a["n"] <= 7]
    rng.shuffle(pool)
    afs = pool[:300 if thorough else 100]
    todo = invs * (len(afs) * (6 if thorough else 4) // len(invs) + 1)
    t = time.time()
    segs, used = clilib.run_all(todo, afs, res.wd, bins, seed() + 4, len(todo) // len(afs) + 1)
    t1, st = vlib.judge("TraceStatic.tla", segs, res.wd, "cli_certificates", shards=8)
    res.add_judge("printed_certificates", t1, st, only_props={"C04"})
    # ... and on frameworks of 10-90 arguments judged through the grounded reduct (certificates taken from a single SAT model are
    # more often incomplete on larger frameworks); stage semantics left out there
    mafs = sets["mid"][:(60 if thorough else 20)] + sets["reducible"][:(80 if thorough else 20)] + [a for a in sets["rand"] if a["n"] == 8][:40] + \
        afgen.random_afs(seed() + 6, 400 if thorough else 120, 9, 13)
    minvs = [i for i in invs if i["kind"] == "DC" and i["enc"] in ("unset", "aux_var")] * 4 + [i for i in invs if i["kind"] == "DC"] + [i for i in invs if i["kind"] == "DS"]
    todo2 = minvs * (len(mafs) * (14 if thorough else 10) // len(minvs) + 1)
    segs2, used2 = clilib.run_all(todo2, mafs, res.wd, bins, seed() + 5, len(todo2) // len(mafs) + 1, sems=["PR", "PR", "PR", "CO", "ST", "SST", "ID"], subdir="clifiles_mid")
    t1, st = vlib.judge("TraceStatic.tla", segs2, res.wd, "cli_certificates_mid", shards=8)
    res.add_judge("printed_certificates_medium_frameworks", t1, st, only_props={"C04"})
    bigsegs = clilib.run_big(clilib.big_instances(seed() + 4, 8 if thorough else 3), res.wd, bins, seed() + 4,
                             queries=(("DC", "CO"), ("DC", "CO"), ("DC", "ST"), ("DC", "PR"), ("DS", "ST"), ("DS", "ST"), ("DS", "PR"), ("DC", "SST"), ("DS", "CO")))
    t1b, stb = vlib.judge("TraceStatic.tla", bigsegs, res.wd, "cli_big_certificates", shards=min(8, len(bigsegs)))
    res.add_judge("printed_big_certificates", t1b, stb, only_props={"C04"})
    log("  RUN cli certificates: %d invocations on %d frameworks + %d big instances %.1fs" % (used, len(afs), len(bigsegs), time.time() - t))


@check("C04")
def c04(tier):
    return static_check("C04", tier, "DC,DS", "yes", "CERT",
                        "acceptance queries through the *_with_certificate entry points, and the `w` lines printed by both binaries with a certificate "
                        "requested (also on instances whose certificates have > 1000 members); non-trivial = a certificate was returned on a framework with >= 3 arguments",
                        after=_printed_certificates)


@check("C07")
def c07(tier):
    return static_check("C07", tier, "DC,DS", "both", "LIST",
                        "all lists of 1..3 arguments with repetition (frameworks <= 4 arguments; lists of <= 2 up to 6 arguments); non-trivial = list with >= 2 distinct arguments",
                        lists=3 if tier == "thorough" else 2,
                        plan=[("ref3", "compact,sparse", "dfs", 64), ("iso4", "compact", "dfs", 16), ("shaped", "compact", "dfs", 4), ("rand", "compact", "dfs", 4),
                              ("gadgets", "compact", "dfs", 2), ("reducible", "compact", "real", 1)])


def replay(path):
    """re-executes the case of a replay file: for events of the static solvers only that framework and query are re-run and re-judged;
    for the other trace families the whole check is re-run with the recorded seed and tier"""
    r = json.load(open(path))
    os.environ["VERIF_SEED"] = str(r.get("seed", 1))
    ev, ctx, pid = r.get("event") or {}, r.get("context") or {}, r["property"]
    if ev.get("ev") == "q" and "att" in ctx and "n" in ctx and "sem" in ev and "args" in ev and not ev.get("isolated"):
        res = Result(pid + "_replay", r.get("tier", "quick"))
        vlib.build_harness()
        a = {"n": ctx["n"], "att": ctx["att"], "tag": ctx.get("tag", "replay")}
        present = ctx.get("present", "compact")
        if present not in ("compact", "sparse", "dup", "padded"):
            present = "compact"
        lists = max(1, len(ev["args"]))
        log("replay of %s: %s-%s args=%s cert=%s on the recorded framework (%s presentation)" % (path, ev["kind"], ev["sem"], ev["args"], ev.get("cert"), present))
        segs = run_static(res, "replay", [a], sems=ev["sem"], kinds=ev["kind"], cert="yes" if ev.get("cert") else "no", present=present,
                          oracle="dfs", budget=400, lists=lists, cc="yes", cap=400)
        t1, st = vlib.judge("TraceStatic.tla", segs, res.wd, "replay", shards=1)
        hits = [t for t in t1 if t["pred"].split(":")[0] == pid and (t["event"].get("args") == ev["args"] or t["event"].get("ev") == "cc")]
        for t in hits[:5]:
            log("VIOLATION property=%s replay=%s" % (pid, path))
            log("  pred=%s event=%s" % (t["pred"], json.dumps(t["event"])[:300]))
        if not hits:
            log("replay: the recorded violation does not reproduce on the current tree")
        return 1 if hits else 0
    log("replay of %s: re-running check %s (tier %s, seed %s)" % (path, pid, r.get("tier"), r.get("seed")))
    return CHECKS[pid](r.get("tier", "quick"))


# ----------------------------------------------------------------------------------------------------------------
# C12 the framework store
# ----------------------------------------------------------------------------------------------------------------
@check("C12")
def c12(tier):
    res = Result("C12", tier)
    vlib.build_harness()
    thorough = tier == "thorough"
    # (A) design: the concrete vectors/counters refine the set model; all public observations agree
    res.add_mc(vlib.mc("MCStoreImpl.tla", cfg="MCStoreImpl.cfg", wd=res.wd, name="MCStoreImpl_3labels", timeout=3000))
    res.add_mc(vlib.mc("MCStoreImpl.tla", cfg="MCStoreImpl2.cfg", wd=res.wd, name="MCStoreImpl_2labels", timeout=3000))
    # (B) behaviours of the set model: one history per distinct state, replayed edge by edge into the real store
    cfg = os.path.join(res.wd, "MCStore_run.cfg")
    open(cfg, "w").write(open(os.path.join(vlib.SPEC, "MCStore.cfg")).read().replace("MaxIds = 4", "MaxIds = %d" % (5 if thorough else 4)))
    r = vlib.mc("MCStore.tla", cfg=cfg, wd=res.wd, name="MCStore", timeout=3000)
    res.add_mc(r)
    hists = vlib.printed(r["out"], "REPLAY")
    hfile = os.path.join(res.wd, "hists.jsonl")
    with open(hfile, "w") as f:
        for h in hists:
            f.write(json.dumps(h) + "\n")
    out = os.path.join(res.wd, "store.ndjson")
    t = time.time()
    vlib.vh(["store", "--hists", hfile, "--labels", 3, "--walks", 200 if thorough else 40, "--len", 2000 if thorough else 500,
             "--wide", 64 if thorough else 16, "--widelen", 1500 if thorough else 600,
             "--seed", seed(), "--out", out, "--threads", vlib.NCPU])
    segs = vlib.segments(out, openers=("reset",))
    log("  RUN store: %d histories (one per state of MCStore) x 24 outgoing edges + random walks -> %d events %.1fs" % (
        len(hists), sum(len(s) for s in segs), time.time() - t))
    t1, st = vlib.judge("TraceStore.tla", segs, res.wd, "store", shards=8)
    res.add_judge("store", t1, st, only_props={"C12"})
    # non-trivial: probes/updates on states holding a tombstone or a removed argument
    nt = set()
    for seg in segs:
        removed = False
        for e in seg[1:]:
            if e["o"]["op"] in ("rmarg", "rmatt") and e["res"] == "ok" and e["ev"] == "u":
                removed = True
            if removed and "proj" in e:
                nt.add((json.dumps(seg[0]), json.dumps(e["o"]), e["ev"], json.dumps(e["proj"]["atts"]), json.dumps(e["proj"]["args"])))
    res.nontrivial = len(nt)
    res.rule = ("every (state, operation) edge of Store.tla's state graph (3 labels, ids <= 4/5) executed on AAFramework<usize> and "
                "AAFramework<String>, plus seeded random histories over 3-6 labels; non-trivial = event after at least one successful removal "
                "(tombstones / id holes present), distinct by (history start, operation, projection); wide walks of 36-160 labels with hub arguments "
                "of degree 50-150 (every 12th state projected in full); AspartixWriter/Reader round trips along the string walks")
    res.samples = [{"history_start": segs[len(segs) // 2][0], "events": segs[len(segs) // 2][1:4]}]
    res.exhaustive = False
    res.extra["exhaustive_part"] = "all (state, operation) edges of the abstract store with 3 labels and <= %d issued ids; StoreImpl refinement for all concrete states within MaxIds/MaxAttVec" % (5 if thorough else 4)
    res.assumptions = ["Store.tla is the 'plain set-based model' of the property", "histories start from default()/new_with_labels; duplicates inserted by crate-private new_attack_by_ids are outside C12's quantifier"]
    return res.finish()


# ----------------------------------------------------------------------------------------------------------------
# C08 / C09 dynamic solvers
# ----------------------------------------------------------------------------------------------------------------
DYN_KINDS = "co,st,pr,coatt1,coatt1.5,coatt2,statt1,statt1.25,statt3,dummyco,dummyst,dummypr,dummysst"


def store_histories(res, maxids, labels="{1, 2, 3}"):
    cfg = os.path.join(res.wd, "MCStore_%d.cfg" % maxids)
    open(cfg, "w").write(open(os.path.join(vlib.SPEC, "MCStore.cfg")).read().replace("MaxIds = 4", "MaxIds = %d" % maxids)
                         .replace("Labels = {1, 2, 3}", "Labels = " + labels))
    r = vlib.mc("MCStore.tla", cfg=cfg, wd=res.wd, name="MCStore_ids%d" % maxids, timeout=3000)
    res.add_mc(r)
    hists = vlib.printed(r["out"], "REPLAY")
    hfile = os.path.join(res.wd, "hists_%d.jsonl" % maxids)
    with open(hfile, "w") as f:
        for h in hists:
            f.write(json.dumps(h) + "\n")
    return hfile, len(hists)


def dynamic_check(pid, tier, mode):
    res = Result(pid, tier)
    vlib.build_harness()
    thorough = tier == "thorough"
    # (A) design: the buffered protocol (validated updates, lazy replay, selector-guarded re-issue, caches) answers for the logical framework
    for cfg in ["MCDynamic_CO.cfg", "MCDynamic_ST.cfg", "MCDynamic_PR.cfg"] + (["MCDynamic_CO_L3.cfg"] if thorough else []):
        res.add_mc(vlib.mc("MCDynamic.tla", cfg=cfg, wd=res.wd, name=cfg[:-4], timeout=3600))
    res.add_mc(vlib.mc("DynVars.tla", cfg="MCDynVars.cfg", wd=res.wd, name="MCDynVars", timeout=600))
    for cfg in ("MCDynSlots.cfg", "MCDynSlots_f1.cfg", "MCDynSlots_f3.cfg"):          # attack-assumption variants: slot life-cycle, factors 1.5, 1, 3
        res.add_mc(vlib.mc("DynSlots.tla", cfg=cfg, wd=res.wd, name=cfg[:-4], timeout=600, workers=4))
    # sensitivity of the models: the pinned (defective) designs must be rejected by TLC
    res.extra["model_rejects_missing_reissue_after_removal"] = vlib.mc_expect_violation("MCDynamic.tla", "MCDynamic_defect.cfg", res.wd, "MCDynamic_defect")
    res.extra["model_rejects_stale_cached_certificate_F7"] = vlib.mc_expect_violation("MCDynamic.tla", "MCDynamic_PR_stale.cfg", res.wd, "MCDynamic_PR_stale")
    res.extra["model_rejects_private_variable_counter_F9"] = vlib.mc_expect_violation("DynVars.tla", "MCDynVars_defect.cfg", res.wd, "MCDynVars_defect")
    runs = []
    hfile, nh = store_histories(res, 3)
    runs.append(("hist3_real", ["--hists", hfile, "--oracle", "real"], nh))
    runs.append(("hist3_rand", ["--hists", hfile, "--oracle", "random", "--stride", 1 if thorough else 3], nh))
    if thorough:
        hfile4, nh4 = store_histories(res, 4)
        runs.append(("hist4_real", ["--hists", hfile4, "--oracle", "real", "--stride", 2], nh4))
    # query-free batches: from every logical state over 2 labels (observed by a query round), every sequence of <= 5 effective updates
    # (MCBatch), one query round at the end -- what the lazily replayed buffer must amount to, whatever the batch cancels or re-creates
    bfile, nb = export_replay(res, "MCBatch.tla", open(os.path.join(vlib.SPEC, "MCBatch.cfg")).read(), "MCBatch")
    runs.append(("batches", ["--hists", bfile, "--labels", 2, "--oracle", "real", "--perhist", 3 if thorough else 1], nb))
    # target frameworks: the frameworks used for the static solvers (random 4-8 arguments, shaped <= 9) built through an update history with
    # detours, then queried in random order with repetitions, one attack removed / put back (caches and incremental state on real structures)
    targets = afgen.random_afs(seed() + 11, 1200 if thorough else 300, 4, 8) + [a for a in afgen.shaped() if 2 <= a["n"] <= 9]
    tfile = os.path.join(res.wd, "targets.afs.jsonl")
    afgen.write(tfile, targets)
    runs.append(("targets", ["--targets", tfile, "--perhist", 4 if thorough else 2, "--oracle", "real"], len(targets)))
    runs.append(("targets_rand", ["--targets", tfile, "--perhist", 2 if thorough else 1, "--oracle", "random"], len(targets)))
    runs.append(("walks_real", ["--walks", 3000 if thorough else 520, "--len", 60, "--oracle", "real"], 0))
    runs.append(("walks_rand", ["--walks", 1500 if thorough else 260, "--len", 40, "--oracle", "random"], 0))
    runs.append(("longwalks", ["--walks", 260 if thorough else 52, "--len", 300, "--oracle", "real"], 0))
    runs.append(("widewalks", ["--wide", 260 if thorough else 52, "--len", 120, "--oracle", "real"], 0))
    nt = set()
    for name, extra, _ in runs:
        out = os.path.join(res.wd, name + ".ndjson")
        t = time.time()
        vlib.vh(["dynamic", "--mode", mode, "--kinds", DYN_KINDS, "--seed", seed(), "--out", out, "--threads", vlib.NCPU] + extra)
        segs = vlib.segments(out, openers=("reset",))
        log("  RUN %-12s -> %d histories, %d events %.1fs" % (name, len(segs), sum(len(s) for s in segs), time.time() - t))
        t1, st = vlib.judge("TraceDynamic.tla", segs, res.wd, name, shards=8)
        for t in t1:
            t["extra_attrs"] = {"solver": (t.get("context") or {}).get("kind")}
        res.add_judge(name, t1, st, only_props={pid})
        for seg in segs:
            removed = False
            bad = False
            for e in seg[1:]:
                if e["ev"] == "u":
                    if e["o"]["op"] in ("rmarg", "rmatt"):
                        removed = True
                elif e["ev"] == "q" and removed:
                    nt.add((seg[0]["kind"], e["kind"], e["arg"], e["cert"], e["st"], json.dumps(e["ext"]), len(seg)))
        if len(res.samples) < 3:
            s = segs[len(segs) // 3]
            res.samples.append({"solver": s[0], "history": s[1:14]})
    res.nontrivial = len(nt)
    res.rule = ("histories = one shortest update history per state of Store.tla (3 labels; exported by MCStore) with query rounds at random "
                "intermediate points and at the end, on each of the 13 solver configurations (6 types; attack variants with factors 1,1.25,1.5,2,3; "
                "recompute wrapper over CO/ST/PR/SST), with CaDiCaL and with a seeded random model choice; plus seeded random walks of 40-300 "
                "operations over 3-6 labels re-adding removed labels%s; every query-free batch of <= 5 effective updates from every logical state over "
                "2 labels (MCBatch); the frameworks of the static checks (4-9 arguments) built through histories with detours and queried in random "
                "order with repetitions (targets); wide histories (18-26 labels, update results only). non-trivial = query answered after at least one removal, distinct by "
                "(solver, query, answer, certificate, history length)" % ("; redundant / invalid operations inserted at random positions" if mode == "c09" else ""))
    res.exhaustive = False
    res.assumptions = ["the logical framework is carried by TraceDynamic with Store.tla's Step", "certificates of dynamic solvers are judged by label (their argument set is private)"]
    return res.finish()


@check("C08")
def c08(tier):
    return dynamic_check("C08", tier, "c08")


@check("C09")
def c09(tier):
    return dynamic_check("C09", tier, "c09")


# ----------------------------------------------------------------------------------------------------------------
# C06 configuration independence, C17 faults, C18 call bounds (static solvers)
# ----------------------------------------------------------------------------------------------------------------
FAKESAT = os.path.join(vlib.HARNESS, "target", "debug", "fakesat")


@check("C06")
def c06(tier):
    res = Result("C06", tier)
    vlib.build_harness()
    thorough = tier == "thorough"
    sets = af_sets(res, tier)
    rng = random.Random(seed())
    plans = [("ref3_embedded", sets["ref3"], "compact,sparse,dup", "cadical"),
             ("iso4_embedded", sets["iso4"] if thorough else sets["iso4"][:300], "compact,sparse", "cadical"),
             ("shaped_embedded", sets["shaped"], "compact,sparse", "cadical"),
             ("rand_embedded", sets["rand"], "compact", "cadical"),
             ("ref3_external", sets["ref3"] if thorough else rng.sample(sets["ref3"], 120), "compact", "cadical,ext:" + FAKESAT),
             ("shaped_external", sets["shaped"] if thorough else [a for a in sets["shaped"] if a["n"] <= 8][:16], "compact", "cadical,ext:" + FAKESAT)]
    if thorough:
        plans.append(("rand_kissat", sets["rand"][:200], "compact", "cadical,ext:kissat|-q"))
    # the range-based searches visit the maximal ranges in an order that depends on the models, hence on the encoding: many frameworks with
    # several incomparable ranges are needed to see an encoding-dependent answer (seed C06-4: 1 framework in 250 for STG)
    plans.append(("range_rand_embedded", afgen.random_afs(seed() + 7, 6000 if thorough else 1500, 6, 10), "compact", "cadical"))
    nt = 0
    for name, afs, present, backends in plans:
        afile = os.path.join(res.wd, name + ".afs.jsonl")
        out = os.path.join(res.wd, name + ".ndjson")
        afgen.write(afile, afs)
        t = time.time()
        vlib.vh(["seq", "--afs", afile, "--out", out, "--present", present, "--backends", backends, "--seed", seed(), "--threads", vlib.NCPU]
                + (["--sems", "SST,STG"] if name.startswith("range_") else []))
        segs = vlib.segments(out, openers=("af",))
        log("  RUN %-18s %5d frameworks -> %7d events %.1fs" % (name, len(afs), sum(len(s) for s in segs), time.time() - t))
        t1, st = vlib.judge("TraceStatic.tla", segs, res.wd, name)
        res.add_judge(name, t1, st, only_props={"C06"})
        for seg in segs:
            for e in seg:
                if e.get("ev") == "agree" and e["n"] >= 4:
                    nt += 1
        if len(res.samples) < 3 and segs:
            s = segs[len(segs) // 2]
            res.samples.append({"framework": {k: s[0][k] for k in ("n", "att", "present")}, "events": s[1:4]})
    # the backend dimension taken to its limit: whichever models the SAT oracle returns (depth-first exploration of the model choices of the
    # real code, as in C02/C03), under each encoder and certificate flag, the status of a query is one and the same
    ex_afs = sets["rand"] + afgen.random_afs(seed() + 8, 1200 if thorough else 300, 6, 10)
    segs = run_static(res, "C06_schedules", ex_afs, sems="PR,SST,STG,ID,ST,CO", kinds="DC,DS", cert="both", present="compact", oracle="dfs",
                      budget=12 if thorough else 6, agree="yes", cap=400)
    segs = [[e for e in s if e["ev"] in ("af", "agree", "frame")] for s in segs]
    t1, st = vlib.judge("TraceStatic.tla", segs, res.wd, "schedules", shards=8)
    res.add_judge("model_schedules", t1, st, only_props={"C06"})
    # ... and on components of 40-500 arguments (frameworks padded with sinks, core ids spread with strides of 32 / 64): encoders that differ
    # only beyond a size or on an id pattern
    segs_p = run_static(res, "C06_padded", sets["rand"][:(250 if thorough else 100)] + sets["iso4"][:60], sems="CO,PR,ST,ID", kinds="DC,DS", cert="both",
                        present="padded", oracle="dfs", budget=2, agree="yes", cap=400)
    segs_p = [[e for e in s if e["ev"] in ("af", "agree", "frame")] for s in segs_p]
    t1, st = vlib.judge("TraceStatic.tla", segs_p, res.wd, "padded", shards=8)
    res.add_judge("padded_components", t1, st, only_props={"C06"})
    segs += segs_p
    nt += sum(1 for s in segs for e in s if e.get("ev") == "agree" and e["n"] >= 4)
    res.nontrivial = nt
    res.rule = ("per framework and per (semantics, DC|DS): one solver object per (encoder, backend) answers a seeded sequence of 2n+2 queries with "
                "repetitions and random certificate flag; one 'agree' event per (semantics, kind, argument) listing the distinct statuses over all "
                "configurations and positions; plus, per query, the statuses over every encoder x certificate flag x explored SAT-model schedule of the real "
                "code (depth-first oracle exploration; compact frameworks of 5-10 arguments and padded components of 40-500); "
                "non-trivial = agree event backed by >= 4 answers")
    res.exhaustive = False
    res.assumptions = ["external backend = harness/src/bin/fakesat.rs (strict DIMACS checker over CaDiCaL); kissat in the thorough tier",
                       "that each individual status is the right one is decided by C02/C03, not here"]
    return res.finish()


@check("C18")
def c18(tier):
    res = Result("C18", tier)
    vlib.build_harness()
    thorough = tier == "thorough"
    # design level: the search machines of Static.tla respect the bound for every oracle schedule
    static_mc(res, tier)
    sets = af_sets(res, tier)
    plan = [("ref3", sets["ref3"], "compact,sparse", 400 if thorough else 200, 2),
            ("iso4", sets["iso4"], "compact", 200 if thorough else 48, 1),
            ("shaped", [a for a in sets["shaped"] if a["n"] <= (12 if thorough else 9)], "compact", 24 if thorough else 8, 1),
            # funnels at the hybrid threshold whose defenders are a choice: the number of calls depends on which (possibly non-complete) sets the
            # oracle returns first -- many more schedules are explored there
            ("funnels", [a for a in sets["shaped"] if "funnel" in a.get("tag", "") and (a["n"] <= 10 or "twins" in a["tag"])], "compact", 400 if thorough else 120, 1),
            ("rand", sets["rand"], "compact", 24 if thorough else 6, 1),
            ("randlists", [a for a in sets["rand"] if a["n"] <= 5][:100 if thorough else 16], "compact", 6, 3),
            ("mid", sets["mid"] if thorough else sets["mid"][:16], "compact", 2, 1),
            ("padded", sets["rand"][:200 if thorough else 80], "padded", 2, 1)]
    nt = set()
    for name, afs, present, budget, lists in plan:
        segs = run_static(res, "C18_" + name, afs, sems="CO,PR,ST,SST,STG,ID", kinds="SE,DC,DS", cert="both", present=present,
                          oracle="dfs", budget=budget, lists=lists, cc="yes", cap=1500 if name == "mid" else 400)
        # padded presentation (components of 40-80 arguments): termination only, the bound needs the base family of the real component
        segs = [[e for e in s if e["ev"] == "af" or (e["ev"] == "cc" and present != "padded") or (e["ev"] == "q" and e["out"]["capped"])] for s in segs]
        t1, st = vlib.judge("TraceStatic.tla", segs, res.wd, "C18_" + name, shards=8)
        res.add_judge(name, t1, st, only_props={"C18"})
        for seg in segs:
            for e in seg:
                if e["ev"] == "cc" and e["calls"] >= 3:
                    nt.add((json.dumps(e["labels"]), json.dumps(e["att"]), e["sem"], e["base"], e["calls"], json.dumps(e["returned"])))
        if len(res.samples) < 3:
            for seg in segs[len(segs) // 2:]:
                cs = [e for e in seg if e["ev"] == "cc" and e["calls"] >= 3]
                if cs:
                    res.samples.append(cs[0])
                    break
    # the dynamic preferred solver (an anchor of this property) works on the whole framework with one incremental SAT solver: termination of
    # every skeptical query along update histories (a query that needs more than 400 SAT calls on <= 6 arguments is not going to terminate)
    hfile, nh = store_histories(res, 3)
    bfile, nb = export_replay(res, "MCBatch.tla", open(os.path.join(vlib.SPEC, "MCBatch.cfg")).read(), "MCBatch")
    for name, extra in (("dyn_hist3", ["--hists", hfile]), ("dyn_batches", ["--hists", bfile, "--labels", 2, "--stride", 2 if thorough else 8]),
                        ("dyn_walks", ["--walks", 2000 if thorough else 400, "--len", 60]), ("dyn_longwalks", ["--walks", 200 if thorough else 40, "--len", 300])):
        out = os.path.join(res.wd, name + ".ndjson")
        vlib.vh(["dynamic", "--mode", "c08", "--kinds", "pr,dummypr", "--oracle", "real", "--seed", seed(), "--out", out, "--threads", vlib.NCPU] + extra)
        dsegs = vlib.segments(out, openers=("reset",))
        t1, st = vlib.judge("TraceDynamic.tla", dsegs, res.wd, name, shards=8)
        res.add_judge(name, t1, st, only_props={"C18"})
    res.nontrivial = len(nt)
    res.rule = ("one 'cc' event per distinct (query kind, component, number of SAT calls, sequence of decoded candidate sets) over all explored "
                "SAT-model schedules, calls summed per query and per component over the solver instances that worked on it; the dynamic preferred "
                "solver along update histories (MCStore, MCBatch, random walks) under a cap of 400 SAT calls per query (termination only); "
                "non-trivial = component on which >= 3 SAT calls were made")
    res.exhaustive = False
    res.assumptions = ["the component is the sub-framework handed to the encoder (observed by TracingEncoder)", "bounds as stated in the property's quantifier text"]
    return res.finish()


def static_mc(res, tier, which=("PR", "ID", "Range", "Compose")):
    """model checking of the static search machines: Static.tla (preferred, ideal), StaticRange.tla (semi-stable, stage) and of the
    composition of answers and certificates over connected components (Compose.tla)"""
    if "Compose" in which:
        res.add_mc(vlib.mc("Compose.tla", cfg="MCCompose.cfg", wd=res.wd, name="MCCompose", timeout=1200))
        res.extra["model_rejects_grounded_completion_everywhere"] = vlib.mc_expect_violation("Compose.tla", "MCCompose_defect.cfg", res.wd, "MCCompose_defect")
    for cfg in sorted(os.listdir(vlib.SPEC)):
        if not (cfg.startswith("MCStatic") and cfg.endswith(".cfg")):
            continue
        if tier != "thorough" and "_N4" in cfg:
            continue
        kind = "Range" if cfg.startswith("MCStaticRange") else cfg.split("_")[1]
        if kind not in which:
            continue
        module = "MCStaticRange.tla" if kind == "Range" else "MCStatic.tla"
        res.add_mc(vlib.mc(module, cfg=cfg, wd=res.wd, name=cfg[:-4], timeout=3000))


@check("C17")
def c17(tier):
    res = Result("C17", tier)
    vlib.build_harness()
    thorough = tier == "thorough"
    static_mc(res, tier)
    sets = af_sets(res, tier)
    nt = set()
    plans = [("unknown_ref3", sets["ref3"], dict(fault="yes", present="compact,sparse")),
             ("unknown_iso4", sets["iso4"] if thorough else sets["iso4"][:200], dict(fault="yes", present="compact")),
             ("unknown_shaped", sets["shaped"], dict(fault="yes", present="compact")),
             ("unknown_rand", sets["rand"] if thorough else sets["rand"][:120], dict(fault="yes", present="compact"))]
    # lists of two arguments on frameworks with several components: the list-specific code paths (merged components, completion of an
    # answer on the components that hold no queried argument) make SAT calls that single-argument queries never reach
    multi = [a for a in sets["ref3"] + sets["iso4"][:200] + sets["shaped"] + sets["rand"][:60] if a["n"] <= 6 and n_components(a) >= 2]
    plans.append(("unknown_lists", multi if thorough else random.Random(seed()).sample(multi, min(len(multi), 150)), dict(fault="yes", present="compact", lists=2)))
    rng = random.Random(seed())
    sample = rng.sample(sets["ref3"], 531 if thorough else 40) + [a for a in sets["shaped"] if a["n"] <= 7][:10]
    for mode in ("silent", "truncated", "garbage", "nomodel", "crash", "vnozero", "lategarbage:9000", "lategarbage:70000"):
        plans.append(("process_" + mode, sample, dict(failing="yes", present="compact", backend="ext:%s|--mode|%s" % (FAKESAT, mode), enc="default")))
    plans.append(("process_fails_at_call_k", random.Random(seed()).sample(multi, min(len(multi), 200 if thorough else 50)),
                  dict(present="compact", enc="default", lists=2, procfault="silent", fakesat=FAKESAT, tmp=os.path.join(res.wd, "ctr"))))
    for name, afs, opts in plans:
        segs = run_static(res, "C17_" + name, afs, sems="CO,PR,ST,SST,STG,ID", kinds="SE,DC,DS", cert="both", oracle="real", **opts)
        t1, st = vlib.judge("TraceStatic.tla", segs, res.wd, "C17_" + name)
        res.add_judge(name, t1, st, only_props={"C17"})
        for seg in segs:
            for e in seg:
                if e["ev"] == "fault" and e["out"]["faulted"]:
                    nt.add((json.dumps(seg[0]["att"]), seg[0]["present"], e["sem"], e["kind"], json.dumps(e["args"]), e["cert"], e["enc"], e["at"], e.get("how", "unknown")))
        if len(res.samples) < 3:
            fs = [e for s in segs for e in s if e["ev"] == "fault" and e["out"]["faulted"]]
            if fs:
                res.samples.append(fs[len(fs) // 2])
    # at the command line: `crustabri solve --external-sat-solver` with a backend failing at every call or at the K-th one
    bindir = vlib.build_repo_bins()
    cli_afs = rng.sample(sets["ref3"], 200 if thorough else 60) + [a for a in sets["shaped"] if 1 <= a["n"] <= 8][:20] + sets["rand"][:(100 if thorough else 30)]
    csegs = clilib.fault_events(cli_afs, res.wd, {"crustabri": os.path.join(bindir, "crustabri")}, seed(), FAKESAT, per_af=16 if thorough else 10)
    # ... and on instance files above 1 MiB (about 10^5 arguments, nearly all isolated)
    csegs += clilib.fault_events(clilib.megabyte_instances(seed(), 4 if thorough else 2), res.wd, {"crustabri": os.path.join(bindir, "crustabri")}, seed() + 1, FAKESAT,
                                 per_af=8, big=True)
    t1, st = vlib.judge("TraceStatic.tla", csegs, res.wd, "cli_faults", shards=8)
    res.add_judge("command_line_faults", t1, st, only_props={"C17"})
    res.extra["cli_runs_in_which_the_failing_call_was_reached"] = sum(1 for s_ in csegs for e in s_ if e.get("ev") == "clifault" and e["faulted"])
    # every reply of <= 3 (4) lines that the specification classes as missing / truncated / malformed, through a real process
    rfile, nr = export_replay(res, "MCExtReply.tla", open(os.path.join(vlib.SPEC, "MCExtReply.cfg")).read().replace("MaxLines = 3", "MaxLines = %d" % (4 if thorough else 3)), "MCExtReply")
    out = os.path.join(res.wd, "trunc.ndjson")
    vlib.vh(["ext", "--replies", rfile, "--volumes", ",".join(["trunc:%d" % k for k in range(0, 31)] + ["lategarbage:%d" % k for k in (0, 4000, 9000, 70000, 200000)]), "--fakesat", FAKESAT, "--timeout_ms", 20000,
             "--tmp", os.path.join(res.wd, "exttmp"), "--out", out, "--threads", vlib.NCPU])
    tsegs = vlib.segments(out, openers=("reset",))
    t1, st = vlib.judge("TraceExtSat.tla", tsegs, res.wd, "trunc")
    res.add_judge("truncation_sweep", t1, st, only_props={"C17"})
    res.nontrivial = len(nt)
    res.rule = ("for every query a fault-free run counts the SAT calls k, then one run per position 1..k with the backend answering Unknown at "
                "that call (FaultySat through the public factory); separately every SAT call fails through a real process (fakesat modes: exit "
                "without output, truncated model, garbage line right after the answer or 9-70 KB later, status without model, crash, model without terminating 0), "
                "or only the K-th one does (lists of two arguments over several components); `crustabri solve --external-sat-solver` with such "
                "backends (exit status and stdout judged when the failing call was reached); "
                "non-trivial = distinct (framework, query, encoder, fault position, fault kind) in which the fault was actually injected")
    res.exhaustive = False
    res.extra["exhaustive_part"] = "all frameworks <= 3 arguments x all problems x every SAT-call position (Unknown result)"
    return res.finish()


# ----------------------------------------------------------------------------------------------------------------
# C15 incremental SAT contract, C16 external exchange
# ----------------------------------------------------------------------------------------------------------------
def export_replay(res, module, cfg_text, name, tag="REPLAY"):
    cfg = os.path.join(res.wd, name + ".cfg")
    open(cfg, "w").write(cfg_text)
    r = vlib.mc(module, cfg=cfg, wd=res.wd, name=name, timeout=3000)
    res.add_mc(r)
    items = vlib.printed(r["out"], tag)
    path = os.path.join(res.wd, name + ".jsonl")
    with open(path, "w") as f:
        for h in items:
            f.write(json.dumps(h) + "\n")
    return path, len(items)


@check("C15")
def c15(tier):
    res = Result("C15", tier)
    vlib.build_harness()
    thorough = tier == "thorough"
    cfgt = open(os.path.join(vlib.SPEC, "MCSat.cfg")).read().replace("MaxClauses = 2", "MaxClauses = %d" % (3 if thorough else 2))
    hfile, nh = export_replay(res, "MCSat.tla", cfgt, "MCSat")
    ext = "ext:kissat|-q,ext:" + FAKESAT
    runs = [("hist_cadical", ["--hists", hfile, "--backends", "cadical"]),
            ("hist_external", ["--hists", hfile, "--stride", 4 if thorough else 16, "--backends", ext]),
            ("walks_all", ["--walks", 1500 if thorough else 300, "--backends", "cadical," + ext]),
            ("big_cnf", ["--bigwalks", 120 if thorough else 24, "--backends", "cadical," + ext])]
    nt = set()
    for name, extra in runs:
        out = os.path.join(res.wd, name + ".ndjson")
        t = time.time()
        vlib.vh(["sat", "--seed", seed(), "--out", out, "--threads", vlib.NCPU] + extra)
        segs = vlib.segments(out, openers=("reset",))
        log("  RUN %-14s -> %d histories, %d events %.1fs" % (name, len(segs), sum(len(s) for s in segs), time.time() - t))
        t1, st = vlib.judge("TraceSat.tla", segs, res.wd, name, shards=8)
        for t in t1:
            t["extra_attrs"] = {"backend": (t.get("context") or {}).get("backend")}
        res.add_judge(name, t1, st, only_props={"C15"})
        for seg in segs:
            ncl = 0
            for e in seg[1:]:
                if e["ev"] == "add":
                    ncl += 1
                elif e["ev"] == "solve" and ncl >= 2 and e["assumps"]:
                    nt.add((seg[0]["backend"], ncl, json.dumps(e["assumps"]), e["res"], json.dumps(e["model"])))
        if len(res.samples) < 3:
            s = segs[len(segs) // 2]
            res.samples.append({"backend": s[0]["backend"], "history": s[1:8]})
    res.nontrivial = len(nt)
    res.rule = ("histories = one per distinct solver state of Sat.tla (3 variables, clause universe of empty/unit/binary clauses, exported by MCSat) with a "
                "solve between additions and all assumption sets of size <= 2, contradictory ones included (plus assumptions on unseen variables) at the end, on CadicalSolver and "
                "ExternalSatSolver (kissat, fakesat); plus seeded random histories over 4-8 variables; non-trivial = solve under assumptions after >= 2 clauses")
    res.exhaustive = False
    res.assumptions = ["kissat and fakesat (CaDiCaL behind a strict DIMACS reader) are correct SAT solvers"]
    return res.finish()


def _stride_arg():
    return []


@check("C16")
def c16(tier):
    res = Result("C16", tier)
    vlib.build_harness()
    thorough = tier == "thorough"
    # (ii) design: drain-then-wait terminates for every input/output volume around the pipe capacity and every child behaviour
    res.add_mc(vlib.mc("MCExtSat.tla", cfg="MCExtSat_proc.cfg", wd=res.wd, name="MCExtSat_DrainThenWait", timeout=1200))
    res.extra["model_rejects_wait_then_drain"] = vlib.mc_expect_violation("MCExtSat.tla", "MCExtSat_defect.cfg", res.wd, "MCExtSat_WaitThenDrain")
    # (iii) replies enumerated by the specification, concretised and fed to the real parser through a process
    rfile, nr = export_replay(res, "MCExtReply.tla", open(os.path.join(vlib.SPEC, "MCExtReply.cfg")).read().replace("MaxLines = 3", "MaxLines = %d" % (4 if thorough else 3)), "MCExtReply")
    out = os.path.join(res.wd, "ext.ndjson")
    vols = "ok,pad:1024,pad:61440,pad:66000,pad:71680,pad:1048576,pad:8388608,split:1,split:2,split:5,early"
    vols += "," + ",".join("trunc:%d" % k for k in range(0, 31))       # a 31-variable model cut after every literal
    # the four child behaviours of ExtSat.tla x input above the pipe capacity x output above the pipe capacity
    vols += ",ok@200,ok@1500,pad:200000@1500,pad:200000@200,earlypad:1024,earlypad:200000,earlypad:200000@200,interleave:1024@200,interleave:400000@200,noread:0,noread:0@200,noread:200000@200"
    vols += ",lategarbage:0,lategarbage:4000,lategarbage:9000,lategarbage:70000,lategarbage:200000"
    if thorough:
        vols += ",pad:33554432,pad:65536,pad:65537,pad:131072,earlypad:8388608@2000,interleave:8388608@2000,noread:8388608@2000,ok@20000"
    tmp = os.path.join(res.wd, "exttmp")
    t = time.time()
    vlib.vh(["ext", "--replies", rfile, "--volumes", vols, "--fakesat", FAKESAT, "--timeout_ms", 20000, "--tmp", tmp, "--out", out, "--threads", vlib.NCPU])
    segs = vlib.segments(out, openers=("reset",))
    log("  RUN ext: %d replies + volumes -> %d events %.1fs" % (nr, sum(len(s) for s in segs), time.time() - t))
    t1, st = vlib.judge("TraceExtSat.tla", segs, res.wd, "ext")
    res.add_judge("ext", t1, st, only_props={"C16"})
    nt = set(json.dumps(e["lines"]) for s in segs for e in s if e["ev"] == "reply" and len(e["lines"]) >= 2)
    nt |= set(e["mode"] for s in segs for e in s if e["ev"] == "volume")
    # (i) header of every instance handed to the external program by real argumentation queries
    sets = af_sets(res, tier)
    rng = random.Random(seed())
    afs = (sets["ref3"] if thorough else rng.sample(sets["ref3"], 150)) + [a for a in sets["shaped"] if a["n"] <= 9] + sets["rand"][:(200 if thorough else 30)]
    logf = os.path.join(res.wd, "dimacs.log")
    if os.path.exists(logf):
        os.remove(logf)
    backend = "ext:%s|--log|%s" % (FAKESAT, logf)
    segs_q = run_static(res, "C16_queries", afs, sems="CO,PR,ST,SST,STG,ID", kinds="SE,DC,DS", cert="both", present="compact", oracle="real", backend=backend)
    # the exchange fails at one SAT-call position of a query (a faithful external solver whose K-th call prints nothing / a truncated reply):
    # the query must abort, whatever call it is -- lists of two arguments over several components reach the calls single arguments never make
    multi = [a for a in sets["ref3"] + sets["shaped"] + sets["rand"][:60] if a["n"] <= 6 and n_components(a) >= 2]
    pf_afs = rng.sample(multi, min(len(multi), 200 if thorough else 50)) + rng.sample(sets["ref3"], 60 if thorough else 15)
    for sub in ("silent", "truncated"):
        segs_pf = run_static(res, "C16_procfault_" + sub, pf_afs, sems="CO,PR,ST,SST,STG,ID", kinds="DC,DS", cert="both", present="compact", oracle="real",
                             enc="default", lists=2, procfault=sub, fakesat=FAKESAT, tmp=os.path.join(res.wd, "ctr"))
        t1p, stp = vlib.judge("TraceStatic.tla", segs_pf, res.wd, "procfault_" + sub)
        res.add_judge("exchange_fails_at_call_k_" + sub, t1p, stp, only_props={"C16"})
    # ... and by the dynamic solvers (selectors, retired variables, variables that occur only negatively)
    res_tmp = Result.__new__(Result)
    res_tmp.wd = res.wd
    res_tmp.add_mc = res.add_mc
    hfile, nh = store_histories(res_tmp, 3)
    dout = os.path.join(res.wd, "dyn_ext.ndjson")
    vlib.vh(["dynamic", "--hists", hfile, "--stride", 6 if thorough else 30, "--kinds", "co,st,pr,coatt1.5,statt2", "--mode", "c08", "--oracle", "real",
             "--backend", backend, "--seed", seed(), "--out", dout, "--threads", vlib.NCPU])
    dsegs = vlib.segments(dout, openers=("reset",))
    res.extra["dynamic_queries_aborted_with_external_backend"] = sum(1 for s in dsegs for e in s if e.get("ev") == "q" and e["panic"])
    dim = [json.loads(l) for l in open(logf)] if os.path.exists(logf) else []
    hsegs = [[{"ev": "reset", "what": "headers"}] + dim]
    t1, st = vlib.judge("TraceExtSat.tla", hsegs, res.wd, "headers", shards=4)
    res.add_judge("headers", t1, st, only_props={"C16"})
    # the queries themselves must have been answered (a refused instance shows as a panic); judged for information by C06
    npanic = sum(1 for s in segs_q for e in s if e.get("ev") == "q" and e["out"]["panic"])
    res.extra["queries_aborted_with_external_backend"] = npanic
    res.extra["dimacs_instances_logged"] = len(dim)
    nt |= set((d["nv"], d["nc"], d["maxvar"]) for d in dim if d["nc"] >= 4)
    res.nontrivial = len(nt)
    res.samples = [segs[0][len(segs[0]) // 2] if segs else {}, dim[len(dim) // 2] if dim else {}] + [e for s in segs for e in s if e["ev"] == "volume"][:2]
    res.rule = ("replies = all sequences of <= %d lines over 13 line kinds (exported by MCExtReply) concretised and read by the real parser through a "
                "process; volumes = real calls whose reply is padded to 1 KiB..8 MiB (below and above the 64 KiB pipe capacity), split v lines, reply "
                "before / while / without consuming stdin crossed with instances of 200 KiB - 1.5 MB, garbage 0-200 KB after a complete answer, each under a "
                "20 s cap; the exchange failing at the K-th call of a query (lists over several components); headers = every DIMACS instance received by the external program during real "
                "queries (all semantics, encoders' defaults); non-trivial = reply of >= 2 lines, a volume mode, or a distinct header with >= 4 clauses" % (4 if thorough else 3))
    res.exhaustive = False
    res.assumptions = ["OS pipe capacity 64 KiB (Linux default)", "fakesat logs exactly the bytes it received"]
    return res.finish()


# ----------------------------------------------------------------------------------------------------------------
# C13 readers, C14 round trips
# ----------------------------------------------------------------------------------------------------------------
@check("C13")
def c13(tier):
    res = Result("C13", tier)
    vlib.build_harness()
    thorough = tier == "thorough"
    maxl = 5 if thorough else 4
    files = []
    for fmt in ("iccma", "apx"):
        cfgt = open(os.path.join(vlib.SPEC, "MCReader_%s.cfg" % fmt)).read().replace("MaxLines = 3", "MaxLines = %d" % maxl)
        path, n = export_replay(res, "MCReader.tla", cfgt, "MCReader_" + fmt)
        files.append(path)
    allf = os.path.join(res.wd, "files.jsonl")
    # thorough tier: all files of <= 4 lines, and one in sixteen (seeded) of the ~6.6 million files of 5 lines (memory of the harness and of
    # the driver; MCReader itself checks all of them against the readers' machines)
    with open(allf, "w") as f:
        k = 0
        for p in files:
            for line in open(p):
                if maxl == 5 and line.count(",") >= 5:       # {"fmt": .., "lines": [5 kinds]} has >= 5 commas
                    k += 1
                    if (k + seed()) % 16 != 0:
                        continue
                f.write(line)
    out = os.path.join(res.wd, "io.ndjson")
    t = time.time()
    vlib.vh(["io", "--files", allf, "--argstr", "yes", "--fuzz", 400000 if thorough else 60000, "--big", 400 if thorough else 60,
             "--seed", seed(), "--out", out, "--threads", vlib.NCPU])
    evs = [json.loads(l) for l in open(out)]
    # segments of bounded size (every event is self-contained)
    segs = [[{"ev": "reset"}] + evs[i:i + 20000] for i in range(0, len(evs), 20000)]
    log("  RUN io: %d events %.1fs" % (len(evs), time.time() - t))
    t1, st = vlib.judge("TraceIO.tla", segs, res.wd, "io", shards=8)
    res.add_judge("io", t1, st, only_props={"C13"})
    # the same abstract files through `crustabri check -f FILE -r FORMAT`
    bindir = vlib.build_repo_bins()
    allfiles = [json.loads(l) for l in open(allf)]
    cevs = clilib.check_command_events(allfiles, res.wd, {"crustabri": os.path.join(bindir, "crustabri")}, seed(), 20000 if thorough else 3000)
    t1c, stc = vlib.judge("TraceIO.tla", [[{"ev": "reset"}] + cevs[i:i + 1000] for i in range(0, len(cevs), 1000)], res.wd, "checkcmd", shards=4)
    res.add_judge("check_command", t1c, stc, only_props={"C13"})
    res.nontrivial = len(set((e["fmt"], json.dumps(e["lines"])) for e in evs if e["ev"] == "file" and len(e["lines"]) >= 3 and e["res"] == "ok")) + \
        len(set((e["fmt"], e["origin"], e["len"], e["res"]) for e in evs if e["ev"] == "total"))
    fe = [e for e in evs if e["ev"] == "file" and len(e["lines"]) >= 3]
    res.samples = [fe[len(fe) // 3], fe[2 * len(fe) // 3], [e for e in evs if e["ev"] == "total"][7]]
    res.rule = ("files = all sequences of <= %d lines over 20 (ICCMA, incl. lines that are not UTF-8) / 17 (Aspartix) line kinds exported by MCReader with the verdict of "
                "Reader.tla, each concretised twice or three times (LF; CRLF | no final newline | extra spaces; physical lines of 8-128 KiB), read by fresh and by "
                "reused reader objects; large files (40-4000 arguments with hubs; 65 535-131 073 declared arguments); query-argument strings; seeded byte-level and token-level "
                "corruption of well-formed files, raw random bytes and token soups (totality only); non-trivial = accepted file of >= 3 lines, "
                "or a distinct (format, origin, length, outcome) fuzz case" % maxl)
    res.exhaustive = False
    res.extra["exhaustive_part"] = "all abstract files of <= 4 lines per format" + (" and 1/16 of those of 5 lines" if maxl == 5 else "")
    res.assumptions = ["line kinds' concrete text as in harness/src/io.rs", "inputs on which the property is silent are classed 'unspecified' (totality only)"]
    return res.finish()


@check("C14")
def c14(tier):
    res = Result("C14", tier)
    vlib.build_harness()
    thorough = tier == "thorough"
    res.add_mc(vlib.mc("MCStore.tla", cfg="MCStore.cfg", wd=res.wd, name="MCStore", timeout=3000))
    out = os.path.join(res.wd, "rt.ndjson")
    t = time.time()
    vlib.vh(["store", "--walks", 2000 if thorough else 400, "--len", 120, "--rt", "yes", "--seed", seed(), "--out", out, "--threads", vlib.NCPU])
    segs = vlib.segments(out, openers=("reset",))
    segs = [s for s in segs if s[0].get("ty") == "string"]
    # the judge needs the updates (to carry the abstract state) and the round-trip events, not the projections
    slim = []
    for s in segs:
        slim.append([s[0]] + [({"ev": "x", "o": e["o"]} if e["ev"] == "u" else e) for e in s[1:]])
    nrt = sum(1 for s in segs for e in s if e["ev"] == "rt")
    log("  RUN store round trips: %d histories, %d write/read round trips %.1fs" % (len(segs), nrt, time.time() - t))
    t1, st = vlib.judge("TraceStore.tla", slim, res.wd, "rt", shards=8)
    res.add_judge("roundtrip", t1, st, only_props={"C14"})
    out2 = os.path.join(res.wd, "resp.ndjson")
    vlib.vh(["io", "--resp", 20000 if thorough else 3000, "--bigrt", 200 if thorough else 40, "--seed", seed(), "--out", out2])
    evs = [json.loads(l) for l in open(out2)]
    t1, st = vlib.judge("TraceIO.tla", [evs], res.wd, "resp")
    res.add_judge("responses", t1, st, only_props={"C14"})
    res.nontrivial = len(set(json.dumps(e["back"]) for s in segs for e in s if e["ev"] == "rt" and len(e["back"]["att"]) >= 2)) + \
        len(set((e["writer"], json.dumps(e["labels"])) for e in evs if e["ev"] == "resp"))
    res.samples = [next(e for s in segs for e in s if e["ev"] == "rt" and len(e["back"]["att"]) >= 2), evs[5], evs[-3]]
    res.rule = ("frameworks = states reached by seeded random update histories over 3-6 string labels (tombstoned arguments and attacks present), written by "
                "AspartixWriter::write_framework and read back by AspartixReader, compared by TLC with the abstract state it carried itself (Store.tla); "
                "responses = random extensions (incl. empty) over usize and string labels through both writers, statuses, no-extension; "
                "non-trivial = distinct read-back framework with >= 2 attacks, or distinct (writer, extension)")
    res.exhaustive = False
    return res.finish()


# ----------------------------------------------------------------------------------------------------------------
# C10 encodings
# ----------------------------------------------------------------------------------------------------------------
@check("C10")
def c10(tier):
    res = Result("C10", tier)
    vlib.build_harness()
    thorough = tier == "thorough"
    cfg = os.path.join(res.wd, "MCEnc_run.cfg")
    open(cfg, "w").write(open(os.path.join(vlib.SPEC, "MCEnc.cfg")).read())
    res.add_mc(vlib.mc("MCEnc.tla", cfg=cfg, wd=res.wd, name="MCEnc_N3_threshold2", timeout=3000))
    sets = af_sets(res, tier)
    rng = random.Random(seed())
    shaped = [a for a in sets["shaped"] if a["n"] <= (12 if thorough else 9)]
    funnels = [a for a in shaped if "funnel" in a["tag"]]
    plans = [("ref3", sets["ref3"]), ("iso4", sets["iso4"] if thorough else sets["iso4"][:250]),
             ("shaped", shaped + funnels[::-1] + rng.sample(shaped, len(shaped))),     # several orders: encoder objects are reused along the list
             ("rand", [a for a in sets["rand"] if a["n"] <= (8 if thorough else 7)][:(600 if thorough else 120)])]
    plans.append(("padded", [a for a in sets["rand"] if 2 <= a["n"] <= 8][:(200 if thorough else 60)] + [a for a in sets["iso4"]][:60]))
    nt = set()
    for name, afs in plans:
        afile = os.path.join(res.wd, name + ".afs.jsonl")
        out = os.path.join(res.wd, name + ".ndjson")
        afgen.write(afile, afs)
        t = time.time()
        vlib.vh(["enc", "--afs", afile, "--out", out, "--threads", vlib.NCPU, "--clauses_upto", 9, "--pad", "yes" if name == "padded" else "no",
                 "--seed", seed()] + (["--huge", 60 if thorough else 18] if name == "padded" else []))
        segs = vlib.segments(out, openers=("af",))
        log("  RUN enc %-8s %5d frameworks -> %6d clause sets %.1fs" % (name, len(afs), sum(len(s) - 1 for s in segs), time.time() - t))
        t1, st = vlib.judge("TraceEnc.tla", segs, res.wd, name, shards=8)
        res.extra["enumerations_cut_at_200000_models_not_judged"] = res.extra.get("enumerations_cut_at_200000_models_not_judged", 0) + \
            sum(1 for sg in segs for e in sg if e.get("ev") == "enc" and e.get("cut"))
        drift = [t for t in t1 if t["pred"].startswith("T2:")]
        if any(t["pred"] == "T2:enumerator_agrees_with_brute_force" for t in drift):
            raise vlib.ToolError("model enumerator of the harness disagrees with TLC's brute force: tool defect, no verdict")
        res.drift += len(drift)
        for t in drift[:3]:
            log("  NOTE drift %s (%s, range=%s): clause set differs from Enc.tla's transcription; not a verdict" % (t["pred"], t["event"]["encoder"], t["event"]["range"]))
        res.add_judge(name, [t for t in t1 if not t["pred"].startswith("T2:")], st, only_props={"C10"})
        for seg in segs:
            for e in seg[1:]:
                if e["nclauses"] >= 4 and len(e["models"]) >= 2:
                    nt.add((json.dumps(seg[0]["att"]), seg[0]["n"], e["encoder"], e["range"]))
        if len(res.samples) < 3:
            s = segs[len(segs) // 2]
            e = dict(s[3])
            e["clauses"] = e["clauses"][:12]
            res.samples.append({"framework": s[0], "event": e})
    res.nontrivial = len(nt)
    res.rule = ("per framework (compact ids) x {aux_var cf/adm/co, exp cf/co, hybrid, default stable} x {plain, range}: the real clause set captured "
                "through SatSolver::add_clause, all its models enumerated and projected on arg_to_lit / first_range_var; encoder objects are reused along "
                "the list of frameworks; frameworks padded with sinks (40-500 arguments, core ids spread with strides 32 / 64) and huge ones (65 540-131 080 "
                "arguments, core ids around 2^16 and 2^17) judged through the lifting / product theorems; non-trivial = clause set with >= 4 clauses and >= 2 model projections")
    res.exhaustive = False
    res.extra["exhaustive_part"] = "all frameworks <= 3 arguments x 13 encoder variants (real code); Enc.tla transcription model-checked with threshold 2"
    res.assumptions = ["the harness' CaDiCaL-based all-models enumerator (validated against TLC's brute force on every clause set with <= 9 variables)"]
    return res.finish()


# ----------------------------------------------------------------------------------------------------------------
# C19 equivalence reduction
# ----------------------------------------------------------------------------------------------------------------
@check("C19")
def c19(tier):
    res = Result("C19", tier)
    vlib.build_harness()
    thorough = tier == "thorough"
    # design level: the propagation algorithm (EquivAlgo.tla) satisfies C19 on all small frameworks
    res.add_mc(vlib.mc("MCEquiv.tla", cfg="MCEquiv_N4.cfg" if thorough else "MCEquiv.cfg", wd=res.wd, name="MCEquiv", timeout=3000))
    sets = af_sets(res, tier)
    rnd = afgen.random_afs(seed() + 77, 6000 if thorough else 1500, 4, 9)
    plans = [("ref3", sets["ref3"]), ("iso4", afgen.iso4_sample(seed(), 100000 if thorough else 1500)),
             ("shaped", [a for a in sets["shaped"] if a["n"] <= 10]), ("rand", rnd),
             ("groundedmix", afgen.grounded_mix(seed(), 20000 if thorough else 4000)),
             ("padded", [dict(a, tag=a["tag"] + "#pad") for a in (afgen.grounded_mix(seed() + 1, 400 if thorough else 120, 4, 8) + [x for x in rnd if 2 <= x["n"] <= 8][:120])]),
             # 20-500 arguments, judged through the grounded reduct: 64-200 unattacked arguments spread over the ids, joint defences; sparse /
             # layered / gadget-soup frameworks whose undecided part has small components
             ("large", afgen.many_sources(seed() + 2, 120 if thorough else 36) + [dict(a, tag=a["tag"] + "#big") for a in sets["reducible"]])]
    nt = set()
    for name, afs in plans:
        afile = os.path.join(res.wd, name + ".afs.jsonl")
        out = os.path.join(res.wd, name + ".ndjson")
        afgen.write(afile, afs)
        vlib.vh(["equiv", "--afs", afile, "--out", out, "--threads", vlib.NCPU, "--big", (8 if thorough else 4) if name == "shaped" else 0])
        evs = [json.loads(l) for l in open(out)]
        segs = [[{"ev": "reset"}] + evs[i:i + 400] for i in range(1, len(evs), 400)]
        t1, st = vlib.judge("TraceEquiv.tla", segs, res.wd, name, shards=8)
        drift = [t for t in t1 if t["pred"].startswith("T2:")]
        res.drift += len(drift)
        if drift:
            log("  NOTE drift: %d reductions differ from EquivAlgo.tla's transcription (not a verdict)" % len(drift))
        res.add_judge(name, [t for t in t1 if not t["pred"].startswith("T2:")], st, only_props={"C19"})
        for e in evs[1:]:
            if e["ev"] != "equiv":
                continue
            if any(len(c) >= 2 for c in e["classes"]) and len(e["classes"]) >= 2:
                nt.add((json.dumps(e["att"]), len(e["args"])))
        if len(res.samples) < 3:
            cand = [e for e in evs[1:] if e["ev"] == "equiv" and any(len(c) >= 2 for c in e["classes"]) and len(e["classes"]) >= 3]
            if cand:
                res.samples.append(cand[len(cand) // 2])
    res.nontrivial = len(nt)
    res.rule = ("all frameworks <= 3 arguments, isomorphism classes of 4-argument frameworks, shaped and seeded random frameworks of 4-9 arguments "
                "(compact ids; every third one through the ICCMA reader with duplicated attack lines), padded frameworks, frameworks of 20-500 arguments with "
                "64-200 unattacked arguments or a small undecided part (grounded reduct), 3000-7000 arguments (bookkeeping) through EquivalencyComputer; "
                "non-trivial = reduction with a merged class of >= 2 arguments and >= 2 classes")
    res.exhaustive = False
    res.extra["exhaustive_part"] = "all frameworks <= 3 arguments" + ("; all 3044 isomorphism classes of 4-argument frameworks" if thorough else "")
    return res.finish()


# ----------------------------------------------------------------------------------------------------------------
# C11 presentation invariance, locality, cross-semantics consistency
# ----------------------------------------------------------------------------------------------------------------
@check("C11")
def c11(tier):
    res = Result("C11", tier)
    vlib.build_harness()
    thorough = tier == "thorough"
    # the relations are theorems of the semantics: checked over all small frameworks (IsoInvariant, Product, StableCoincide, ...)
    small = mcdung(res, 4 if thorough else 3)
    # ... and, for the padding with sinks, proved for frameworks of any size (TLAPS)
    res.extra["tlaps"] = [vlib.tlaps("proofs/SinkLemma.tla", res.wd), vlib.tlaps("proofs/ProductLemma.tla", res.wd), vlib.tlaps("proofs/ReductLemma.tla", res.wd), vlib.tlaps("proofs/GroundedLemma.tla", res.wd)]
    s = seed()
    k = 4 if thorough else 1
    larges = afgen.large_afs(s, 150 * k, 20, 50) + afgen.large_afs(s + 1, 60 * k, 51, 120) + afgen.large_afs(s + 2, 40 * k, 121, 300)
    mids = afgen.random_afs(s + 3, 300 * k, 6, 14) + [a for a in afgen.shaped() if a["n"] >= 3] + afgen.grounded_mix(s, 200 * k, 6, 12)
    smalls = [a for a in small if a["n"] == 3] if thorough else random.Random(s).sample([a for a in small if a["n"] == 3], 200)
    nt = set()
    for name, afs in (("large", larges), ("medium", mids), ("small", smalls)):
        afile = os.path.join(res.wd, name + ".afs.jsonl")
        out = os.path.join(res.wd, name + ".ndjson")
        afgen.write(afile, afs)
        t = time.time()
        vlib.vh(["meta", "--afs", afile, "--out", out, "--seed", s, "--threads", vlib.NCPU])
        segs = vlib.segments(out, openers=("reset",))
        log("  RUN meta %-7s %5d frameworks -> %7d events %.1fs" % (name, len(afs), sum(len(x) for x in segs), time.time() - t))
        t1, st = vlib.judge("TraceMeta.tla", segs, res.wd, name, shards=8)
        res.add_judge(name, t1, st, only_props={"C11"})
        for seg in segs:
            for e in seg[1:]:
                if e["ev"] == "pair" and len(set(e["base"])) >= 2:
                    nt.add((seg[0]["idx"], name, e["rel"], e["sem"], e["kind"]))
        if len(res.samples) < 3:
            sg = segs[len(segs) // 2]
            res.samples.append({"framework": sg[0], "pair": next(e for e in sg if e["ev"] == "pair" and len(set(e["base"])) >= 2) if any(e["ev"] == "pair" and len(set(e["base"])) >= 2 for e in sg) else sg[1]})
    res.nontrivial = len(nt)
    res.rule = ("base instances: sparse random, layered and cycle-union graphs of 20-300 arguments (semantics capped by size: GR/CO/ST <= 300, PR <= 120, "
                "SST/STG/ID <= 50), random/shaped/grounded-mix frameworks of 6-16 arguments, 3-argument frameworks; for each, 6 sampled arguments x DC/DS x "
                "semantics on the instance and on 4 transforms (argument permutation + attack reordering, duplicated/reordered ICCMA attack lines, union "
                "with a component with / without a stable extension, padding with sinks), each under every encoder choice (all three up to 16 arguments, in "
                "rotation beyond), plus one cross-semantics event; non-trivial = pair whose base statuses are not all equal")
    res.exhaustive = False
    res.extra["exhaustive_part"] = "the relations as theorems over all frameworks <= %d arguments (MCDung)" % (4 if thorough else 3)
    res.assumptions = ["on 20-300 arguments only relations between runs and polynomial necessary conditions are judged (DESIGN.md section 8)"]
    return res.finish()


# ----------------------------------------------------------------------------------------------------------------
# C05 command-line tools
# ----------------------------------------------------------------------------------------------------------------


@check("C05")
def c05(tier):
    res = Result("C05", tier)
    thorough = tier == "thorough"
    bindir = vlib.build_repo_bins()
    bins = {"crustabri": os.path.join(bindir, "crustabri"), "iccma23": os.path.join(bindir, "crustabri_iccma23")}
    r = vlib.mc("MCCli.tla", cfg="MCCli.cfg", wd=res.wd, name="MCCli", timeout=600, workers=4)
    res.add_mc(r)
    space = vlib.printed(r["out"], "REPLAY")
    invs = [x["inv"] for x in space]
    sets = af_sets(res, tier)
    rng = random.Random(seed())
    pool = [a for a in sets["ref3"] if a["n"] == 3] + [a for a in sets["iso4"]] + [a for a in sets["shaped"] if 2 <= a["n"] <= 9] + [a for a in sets["rand"] if a["n"] <= 7]
    rng.shuffle(pool)
    answers = [i for i in invs if i["file"] == "good" and i["pclass"] == "valid" and i["enc"] != "invalid" and i["argc"] == ("absent" if i["kind"] == "SE" else "valid")]
    others = [i for i in invs if i not in answers]
    binans = [i for i in invs if i["file"] == "bincomment" and i["pclass"] == "valid" and i["enc"] != "invalid" and i["argc"] == ("absent" if i["kind"] == "SE" else "valid")]
    if thorough:
        todo = invs + answers * 6 + binans * 6
        nafs = 700
    else:
        ufold = [i for i in others if i["pclass"] == "unicodefold" and i["file"] == "good" and i["enc"] != "invalid"]
        todo = rng.sample(others, 3000) + answers * 16 + binans * 4 + rng.sample(ufold, min(len(ufold), 150))
        nafs = 450
    afs = pool[:nafs]
    per_af = len(todo) // len(afs) + 1
    t = time.time()
    segs, used = clilib.run_all(todo, afs, res.wd, bins, seed(), per_af)
    segs.append([{"ev": "af", "idx": -1, "n": 0, "args": [], "ids": [], "att": [], "present": "file", "tag": "", "sems": []}] + clilib.problems_events(bins))
    bigsegs = clilib.run_big(clilib.big_instances(seed(), 12 if thorough else 3), res.wd, bins, seed())
    t1b, stb = vlib.judge("TraceStatic.tla", bigsegs, res.wd, "cli_big", shards=min(8, len(bigsegs)))
    res.add_judge("cli_big_instances", t1b, stb, only_props={"C05"})
    log("  RUN cli: %d invocations (of %d abstract ones) on %d frameworks %.1fs" % (used, len(invs), len(afs), time.time() - t))
    t1, st = vlib.judge("TraceStatic.tla", segs, res.wd, "cli", shards=8)
    res.add_judge("cli", t1, st, only_props={"C05"})
    res.nontrivial = len(set((json.dumps(e["inv"], sort_keys=True), e["sem"], e["exit"], e["status"], json.dumps(e["wargs"])) for s in segs for e in s if e["ev"] == "cli"))
    ce = [e for s in segs for e in s if e["ev"] == "cli"]
    res.samples = [next(e for e in ce if e["exit"] == 0 and e["wline"]), next(e for e in ce if e["exit"] != 0), ce[len(ce) // 2]]
    res.rule = ("abstract invocations = the space enumerated by MCCli (binary x file kind x format x problem class x query kind x argument class x encoding x "
                "certificate x logging: %d legal combinations) with the outcome of Cli.tla; each is concretised (random semantics, casing, argument) on a "
                "framework written in both formats (plus a file with a comment that is not UTF-8) and run through the real binaries; instances of 1100-2600 "
                "arguments (witness lines of several KiB); answers are parsed and judged by the C01-C04 predicates; "
                "non-trivial = distinct (invocation, semantics, exit status, printed answer)" % len(invs))
    res.exhaustive = False
    res.extra["abstract_invocations"] = len(invs)
    res.extra["invocations_run"] = used
    res.assumptions = ["log lines are exactly the stdout lines starting with '![' (app_helper.rs)", "stderr is not part of the answer channel"]
    return res.finish()
